(* C09: object and map key rules — first occurrence wins, order, hidden private
   names, and one set of pairs behind every accessor. *)
From Coq Require Import ZArith String List Bool Arith Lia Permutation.
From PanVerif Require Import Core.Syntax Core.Values Core.Interp Core.FailStopProofs Core.OrderProofs Core.ProtoProofs.
Import ListNotations.

(* ---- objects: one value per name, the first occurrence wins (also across `**`) ---- *)
Lemma add_first_keeps_existing {A} k (v : A) l x : assoc k l = Some x -> add_first k v l = l.
Proof. intros H. unfold add_first. now rewrite H. Qed.

Lemma add_first_appends_new {A} k (v : A) l : assoc k l = None -> add_first k v l = l ++ [(k, v)].
Proof. intros H. unfold add_first. now rewrite H. Qed.

Lemma fold_add_first_keeps {A} (src : list (string * A)) : forall acc k x,
  assoc k acc = Some x ->
  assoc k (fold_left (fun a kv => add_first (fst kv) (snd kv) a) src acc) = Some x.
Proof.
  induction src as [|[k' v'] t IH]; intros acc k x H; cbn [fold_left fst snd]; [exact H|].
  apply IH. destruct (String.eqb_spec k' k) as [->|N].
  - now rewrite assoc_add_first_same, H.
  - now rewrite assoc_add_first_other.
Qed.

(* sorting the names is a permutation: keys lists exactly the own public names, each once *)
Lemma ins_sorted_perm {A} (key : A -> string) x l : Permutation (Values.ins_sorted key x l) (x :: l).
Proof.
  induction l as [|y t IH]; cbn [Values.ins_sorted]; [reflexivity|].
  destruct (str_ltb (key x) (key y)); [reflexivity|]. rewrite IH. apply perm_swap.
Qed.

Lemma sort_by_perm {A} (key : A -> string) l : Permutation (sort_by key l) l.
Proof.
  unfold sort_by. rewrite <- fold_left_rev_right.
  assert (forall r, Permutation (fold_right (fun y x => Values.ins_sorted key y x) [] r) r) as H.
  { induction r as [|x t IH]; cbn [fold_right]; [reflexivity|]. rewrite ins_sorted_perm. now constructor. }
  rewrite H. symmetry. apply Permutation_rev.
Qed.

Lemma public_keys_spec ps k :
  In k (public_keys ps) <-> (In k (map fst ps) /\ is_public k = true).
Proof.
  unfold public_keys. split.
  - intros H. apply (Permutation_in k (sort_by_perm (fun x => x) _)) in H. now apply filter_In in H.
  - intros H. apply (Permutation_in k (Permutation_sym (sort_by_perm (fun x => x) _))). now apply filter_In.
Qed.

Lemma private_keys_spec ps k :
  In k (private_keys ps) <-> (In k (map fst ps) /\ is_public k = false).
Proof.
  unfold private_keys. split.
  - intros H. apply (Permutation_in k (sort_by_perm (fun x => x) _)) in H. apply filter_In in H.
    destruct H as [H1 H2]. split; [exact H1|]. now apply negb_true_iff in H2.
  - intros [H1 H2]. apply (Permutation_in k (Permutation_sym (sort_by_perm (fun x => x) _))).
    apply filter_In. split; [exact H1|]. now apply negb_true_iff.
Qed.

(* names starting with `_` are not public *)
Lemma underscore_names_are_private c t : is_public (String c t) = true -> is_alpha c = true.
Proof. cbn [is_public]. intros H. now apply andb_true_iff in H. Qed.

(* ---- maps: scalar keys by (type, value), first wins, insertion order ------------------ *)
Lemma scalar_add_first_keeps k v l x : scalar_lookup k l = Some x -> scalar_add_first k v l = l.
Proof. intros H. unfold scalar_add_first. now rewrite H. Qed.

Lemma scalar_add_first_appends k v l : scalar_lookup k l = None -> scalar_add_first k v l = l ++ [(k, v)].
Proof. intros H. unfold scalar_add_first. now rewrite H. Qed.

Lemma scalar_eqb_refl k : is_scalar k = true -> scalar_eqb k k = true.
Proof.
  destruct k; cbn; intros H; try discriminate; auto using Z.eqb_refl, String.eqb_refl.
  apply Bool.eqb_reflx.
Qed.

Lemma scalar_lookup_after_add k v l : is_scalar k = true ->
  scalar_lookup k (scalar_add_first k v l) = match scalar_lookup k l with Some x => Some x | None => Some v end.
Proof.
  intros Hs. unfold scalar_add_first. destruct (scalar_lookup k l) eqn:E; [exact E|].
  induction l as [|[k' v'] t IH]; cbn [app scalar_lookup].
  - now rewrite scalar_eqb_refl.
  - cbn [scalar_lookup] in E. destruct (scalar_eqb k k'); [discriminate|]. now apply IH.
Qed.

(* scalar keys are distinct when their type or value differs *)
Lemma scalar_keys_distinct_by_type_and_value :
  forall p q z s b, scalar_eqb (VInt p z) (VStr q s) = false /\ scalar_eqb (VInt p z) (VBool b) = false /\
                    scalar_eqb (VInt p z) (VNil q) = false /\ scalar_eqb (VStr q s) (VNil p) = false /\
                    (forall y, scalar_eqb (VInt p z) (VInt q y) = Z.eqb z y) /\
                    (forall t, scalar_eqb (VStr p s) (VStr q t) = String.eqb s t).
Proof. intros. repeat split. Qed.

(* ---- one set of pairs behind len / keys / values / items / iteration ------------------- *)

(* ---- names are listed in sorted order ------------------------------------------------ *)
(* a <= b in the byte order of strings (String.compare): b is not strictly before a *)
Definition str_le (a b : string) : Prop := str_ltb b a = false.

Inductive sorted_names : list string -> Prop :=
| sn_nil : sorted_names []
| sn_one x : sorted_names [x]
| sn_cons x y t : str_le x y -> sorted_names (y :: t) -> sorted_names (x :: y :: t).

Lemma str_ltb_asym a b : str_ltb a b = true -> str_ltb b a = false.
Proof.
  unfold str_ltb. rewrite (String.compare_antisym b a). destruct (String.compare a b); cbn; congruence.
Qed.

Lemma ins_sorted_names x l : sorted_names l -> sorted_names (Values.ins_sorted (fun s => s) x l).
Proof.
  induction 1 as [|y|y z t Hyz Hs IH]; cbn [Values.ins_sorted].
  - constructor.
  - destruct (str_ltb x y) eqn:E.
    + constructor; [apply str_ltb_asym; exact E|constructor].
    + constructor; [exact E|constructor].
  - destruct (str_ltb x y) eqn:E.
    + constructor; [apply str_ltb_asym; exact E|]. now constructor.
    + cbn [Values.ins_sorted] in IH. destruct (str_ltb x z) eqn:E2.
      * constructor; [exact E|exact IH].
      * constructor; [exact Hyz|exact IH].
Qed.

Lemma sort_by_sorted_names l : sorted_names (sort_by (fun s => s) l).
Proof.
  unfold sort_by. assert (forall acc, sorted_names acc ->
    sorted_names (fold_left (fun a x => Values.ins_sorted (fun s => s) x a) l acc)) as H.
  { induction l as [|x t IH]; intros acc Ha; cbn [fold_left]; [exact Ha|]. apply IH. now apply ins_sorted_names. }
  apply H. constructor.
Qed.

(* keys lists the public names in sorted order; private?: true appends the private names, sorted too *)
Lemma public_keys_sorted ps : sorted_names (public_keys ps).
Proof. apply sort_by_sorted_names. Qed.
Lemma private_keys_sorted ps : sorted_names (private_keys ps).
Proof. apply sort_by_sorted_names. Qed.

(* each own name is listed once *)
Lemma public_keys_nodup ps : NoDup (map fst ps) -> NoDup (public_keys ps).
Proof.
  intros N. unfold public_keys. eapply Permutation_NoDup; [symmetry; apply sort_by_perm|].
  now apply NoDup_filter.
Qed.

Section Views.
Variable W : wk.
Variable R : recs.
Variable env : nat.

Definition map_pairs (sc ns : list (val * val)) : list (val * val) := sc ++ ns.

Lemma as_map_self st p sc ns q : proto_of W st (VMap p sc ns) = Some q -> as_map W st (VMap p sc ns) = Some (sc, ns).
Proof.
  intros H. unfold as_map, trace, chain_fuel.
  replace (length (heap st) + 16) with (S (length (heap st) + 15)) by lia.
  cbn [trace_fuel]. rewrite H. reflexivity.
Qed.

Lemma map_views_consistent st p sc ns kw :
  let m := VMap p sc ns in
  call_builtin W R env B_Map_keys [m] kw st = (Ok (vArr W (map fst (map_pairs sc ns))), st) /\
  call_builtin W R env B_Map_values [m] kw st = (Ok (vArr W (map snd (map_pairs sc ns))), st) /\
  call_builtin W R env B_Map_items [m] kw st =
    (Ok (vArr W (map (fun kv => vArr W [fst kv; snd kv]) (map_pairs sc ns))), st) /\
  call_builtin W R env B_Map_len [m] kw st = (Ok (vInt W (Z.of_nat (length (map_pairs sc ns)))), st).
Proof.
  intros m. assert (as_map W st m = Some (sc, ns)) as A by (apply (as_map_self st p sc ns p); reflexivity).
  unfold m in *. repeat split; cbn [call_builtin arg0 nth_error need]; unfold bind, ret, get_st; rewrite A;
    try reflexivity. unfold map_pairs. now rewrite app_length.
Qed.

(* iteration yields exactly the items, scalar keys in insertion order first, then the others *)
Lemma map_iter_yields_items st p sc ns kw :
  call_builtin W R env B_Map_iter [VMap p sc ns] kw st =
  alloc_biter (BIList (map (fun kv => vArr W [fst kv; snd kv]) (map_pairs sc ns))) st.
Proof.
  assert (as_map W st (VMap p sc ns) = Some (sc, ns)) as A by (apply (as_map_self st p sc ns p); reflexivity).
  cbn [call_builtin arg0 nth_error need]. unfold bind, ret, get_st. now rewrite A.
Qed.

(* m[k] for a scalar key returns the stored value *)
Lemma map_at_scalar_present st p sc ns k v ix kw :
  is_scalar k = true -> scalar_lookup k sc = Some v ->
  as_arr W st ix = Some (wkv W "Arr", [k]) ->
  call_builtin W R env B_Map_at [VMap p sc ns; ix] kw st = (Ok v, st).
Proof.
  intros Hs Hl Ha.
  assert (as_map W st (VMap p sc ns) = Some (sc, ns)) as A by (apply (as_map_self st p sc ns p); reflexivity).
  cbn [call_builtin]. unfold bind, get_st. rewrite A, Ha, Hs, Hl. reflexivity.
Qed.

(* keys / values / items of an object are three views of one listing: the sorted public names (then the
   sorted private names when private?: true), each with the value stored under it *)
Lemma obj_views_consistent st id o kw :
  as_obj W st (VObj id) = Some id -> get_obj st id = Some o ->
  let ks := app (public_keys (opairs o)) (if kw_true kw "private?"%string then private_keys (opairs o) else []) in
  let row f := flat_map (fun k => match assoc k (opairs o) with Some v => [f k v] | None => [] end) ks in
  call_builtin W R env B_Obj_keys [VObj id] kw st = (Ok (vArr W (row (fun k _ => vStr W k))), st) /\
  call_builtin W R env B_Obj_values [VObj id] kw st = (Ok (vArr W (row (fun _ v => v))), st) /\
  call_builtin W R env B_Obj_items [VObj id] kw st = (Ok (vArr W (row (fun k v => vArr W [vStr W k; v]))), st).
Proof.
  intros A G ks row. repeat split; cbn [call_builtin arg0 nth_error need]; unfold bind, ret;
    unfold obj_listing, own_pairs, bind, ret, get_st; rewrite A, G; reflexivity.
Qed.

End Views.
