(* C03: lexical scoping and argument binding — laws of the frame primitives, of
   argument binding and of calls, for all frames, names, argument lists and every
   lower interpreter level. *)
From Coq Require Import ZArith String List Bool Arith Lia.
From PanVerif Require Import Core.Syntax Core.Values Core.Interp Core.FailStopProofs.
Import ListNotations.

(* ---- association lists ---------------------------------------------------------- *)
Lemma assoc_set_same {A} k (v : A) l : assoc k (set_assoc k v l) = Some v.
Proof.
  induction l as [|[k' v'] t IH]; cbn [set_assoc assoc].
  - now rewrite String.eqb_refl.
  - destruct (String.eqb k k') eqn:E; cbn [assoc]; rewrite ?String.eqb_refl, ?E; auto.
Qed.

Lemma assoc_set_other {A} k k' (v : A) l : k <> k' -> assoc k' (set_assoc k v l) = assoc k' l.
Proof.
  intros N. induction l as [|[k2 v2] t IH]; cbn [set_assoc assoc].
  - destruct (String.eqb_spec k' k); [congruence|reflexivity].
  - destruct (String.eqb_spec k k2) as [->|N2]; cbn [assoc].
    + destruct (String.eqb_spec k' k2); [congruence|reflexivity].
    + destruct (String.eqb k' k2); [reflexivity|exact IH].
Qed.

Lemma nth_error_upd_same {A} n (x : A) l : n < length l -> nth_error (upd_nth n x l) n = Some x.
Proof.
  revert n. induction l as [|h t IH]; intros n H; cbn in H; [lia|].
  destruct n; cbn; [reflexivity|]. apply IH. lia.
Qed.

Lemma nth_error_upd_other {A} n m (x : A) l : n <> m -> nth_error (upd_nth n x l) m = nth_error l m.
Proof.
  revert n m. induction l as [|h t IH]; intros n m N; destruct n, m; cbn; try reflexivity; try congruence.
  apply IH. congruence.
Qed.

Lemma length_upd {A} n (x : A) l : length (upd_nth n x l) = length l.
Proof. revert n. induction l as [|h t IH]; intros n; destruct n; cbn; auto. Qed.

(* ---- assignment writes the given frame and nothing else ------------------------- *)
Lemma env_set_spec e x v st f :
  nth_error (frames st) e = Some f ->
  exists st', env_set e x v st = (Ok tt, st') /\
    nth_error (frames st') e = Some {| fstore := set_assoc x v (fstore f); fouter := fouter f |} /\
    (forall g, g <> e -> nth_error (frames st') g = nth_error (frames st) g) /\
    length (frames st') = length (frames st) /\
    heap st' = heap st /\ funcs st' = funcs st /\ biters st' = biters st /\ out st' = out st.
Proof.
  intros H. unfold env_set. rewrite H. eexists. split; [reflexivity|]. cbn [frames heap funcs biters out].
  assert (e < length (frames st)) as L by (apply nth_error_Some; rewrite H; discriminate).
  split; [apply nth_error_upd_same; exact L|].
  split; [intros g N; apply nth_error_upd_other; congruence|].
  split; [apply length_upd|]. repeat split.
Qed.

(* reading a variable just written in the same frame gives the new value; other names are untouched *)
Lemma env_get_fuel_here fuel st e x f v :
  nth_error (frames st) e = Some f -> assoc x (fstore f) = Some v ->
  env_get_fuel (S fuel) st e x = Some v.
Proof. intros H A. cbn. now rewrite H, A. Qed.

(* a name that the frame does not define is looked up in the frame written where the
   function literal stood (fouter), never in the caller's frame *)
Lemma env_get_fuel_outer fuel st e x f o :
  nth_error (frames st) e = Some f -> assoc x (fstore f) = None -> fouter f = Some o ->
  env_get_fuel (S fuel) st e x = env_get_fuel fuel st o x.
Proof. intros H A O. cbn. now rewrite H, A, O. Qed.

Lemma env_get_fuel_top fuel st e x f :
  nth_error (frames st) e = Some f -> assoc x (fstore f) = None -> fouter f = None ->
  env_get_fuel (S fuel) st e x = None.
Proof. intros H A O. cbn. now rewrite H, A, O. Qed.

(* ---- a call runs in a frame of its own ------------------------------------------- *)
(* NewCopiedEnv: the new frame is fresh (its id is the old number of frames), it starts
   as a copy of the closure's frame with the same outer link, and no existing frame changes *)
Lemma copy_frame_spec e st f :
  nth_error (frames st) e = Some f ->
  copy_frame e st =
  (Ok (length (frames st)),
   {| heap := heap st; frames := frames st ++ [{| fstore := fstore f; fouter := fouter f |}];
      funcs := funcs st; biters := biters st; out := out st; inp := inp st |}).
Proof. intros H. unfold copy_frame. now rewrite H. Qed.

Lemma alloc_frame_old_frames store o st id st' g :
  alloc_frame store o st = (Ok id, st') -> g < length (frames st) ->
  nth_error (frames st') g = nth_error (frames st) g.
Proof.
  unfold alloc_frame. intros H L. inversion H; subst; cbn. now rewrite nth_error_app1.
Qed.

(* ---- argument binding --------------------------------------------------------------- *)
(* missing positional arguments are nil, extra ones are kept only in \N and \0 *)
Lemma pad_args_length W args n : n <= length (pad_args W args n).
Proof.
  revert args. induction n as [|n IH]; intros args; cbn [pad_args]; [lia|].
  destruct args as [|a t]; cbn [length].
  - specialize (IH []). lia.
  - specialize (IH t). lia.
Qed.

Lemma pad_args_nth W args n i :
  nth_error (pad_args W args n) i =
  match nth_error args i with
  | Some a => Some a
  | None => if i <? n then Some (vNil W) else None
  end.
Proof.
  revert args i. induction n as [|n IH]; intros args i; cbn [pad_args].
  - destruct (nth_error args i); [reflexivity|]. reflexivity.
  - destruct args as [|a t]; destruct i as [|i]; cbn [nth_error]; try reflexivity.
    + rewrite IH. cbn. destruct i; reflexivity.
    + rewrite IH. reflexivity.
Qed.

(* star-unpacking an array argument: the call receives the array's elements as positional arguments *)
Section Unpack.
Variable W : wk.
Variable R : recs.
Notation ev := (r_expr R).

Lemma unpack_star e t env st v st1 p l :
  ev e env st = (Ok v, st1) -> as_arr W st1 v = Some (p, l) ->
  eval_args W R (EPrefix "*" e :: t) env st =
  ('(a, k) <- eval_args W R t env ;; ret ((l ++ a)%list, k)) st1.
Proof.
  intros He Ha. cbn [eval_args]. unfold Interp.ev.
  rewrite (bind_ok _ _ _ _ _ He). unfold bind at 1, get_st. now rewrite Ha.
Qed.
End Unpack.
