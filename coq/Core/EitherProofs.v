(* C13: try / Either. An Either value is abstractly (EV v | EE kind msg); each step
   of a wrapped chain is fmap with an arbitrary callee (any value called through its
   `call` property by an arbitrary lower level R). *)
From Coq Require Import ZArith String List Bool Arith Lia.
From PanVerif Require Import Core.Syntax Core.Values Core.Interp Core.FailStopProofs Core.ChainProofs.
Import ListNotations.

Inductive eith := EV (v : val) | EE (k m : string).

Section Either.
Variable W : wk.
Variable R : recs.
Variable env : nat.

(* calling a step on a value: what the unwrapped chain does *)
Definition call_step (f v : val) : M val := r_callprop R env f "call" [v] [].

(* one wrapped step: fmap *)
Definition fmap_step (e : eith) (f : val) : M eith :=
  match e with
  | EV v => r <- catch (call_step f v) ;;
            ret (match r with inl x => EV x | inr (k, m) => EE k m end)
  | EE k m => ret (EE k m)
  end.

Fixpoint fold_fmap (fs : list val) (e : eith) : M eith :=
  match fs with
  | [] => ret e
  | f :: t => e' <- fmap_step e f ;; fold_fmap t e'
  end.

(* the unwrapped chain: call the steps one after the other, stop at the first raise *)
Fixpoint plain (fs : list val) (v : val) : M (val + string * string) :=
  match fs with
  | [] => ret (inl v)
  | f :: t => r <- catch (call_step f v) ;;
              match r with
              | inl x => plain t x
              | inr km => ret (inr km)
              end
  end.

(* after the first failure every further step is skipped: nothing is called, the state
   does not change, the same error is kept *)
Lemma skip_after_failure fs k m st : fold_fmap fs (EE k m) st = (Ok (EE k m), st).
Proof. induction fs as [|f t IH]; cbn [fold_fmap fmap_step]; [reflexivity|]. unfold bind, ret. exact IH. Qed.

(* try commutes with the chain: the wrapped chain holds the plain chain's result, or the
   error (same kind, same message) the plain chain would have raised, from the same state *)
Theorem try_commutes fs : forall v st,
  fold_fmap fs (EV v) st =
  (r <- plain fs v ;; ret (match r with inl x => EV x | inr (k, m) => EE k m end)) st.
Proof.
  induction fs as [|f t IH]; intros v st; cbn [fold_fmap plain fmap_step].
  - reflexivity.
  - unfold bind, catch, ret in IH |- *.
    destruct (call_step f v st) as [[x|k m| |w] s1].
    + apply IH.
    + pose proof (skip_after_failure t k m s1) as S. unfold bind, ret in S. exact S.
    + reflexivity.
    + reflexivity.
Qed.

(* a chain with no failure yields the same value as the unwrapped calls *)
Corollary no_failure_same_value fs v st x st' :
  plain fs v st = (Ok (inl x), st') -> fold_fmap fs (EV v) st = (Ok (EV x), st').
Proof. intros H. rewrite try_commutes. unfold bind. now rewrite H. Qed.

Corollary failure_same_error fs v st k m st' :
  plain fs v st = (Ok (inr (k, m)), st') -> fold_fmap fs (EV v) st = (Ok (EE k m), st').
Proof. intros H. rewrite try_commutes. unfold bind. now rewrite H. Qed.

(* the accessor table: every accessor is a function of that single outcome *)
Definition acc_A (e : eith) : val :=
  match e with EV v => vArr W [v; vNil W] | EE k m => vArr W [vNil W; VErrW k m] end.
Definition acc_val (e : eith) : val := match e with EV v => v | EE _ _ => vNil W end.
Definition acc_err (e : eith) : val := match e with EV _ => vNil W | EE k m => VErrW k m end.
Definition acc_or (e : eith) (d : val) : val := match e with EV v => v | EE _ _ => d end.

(* ---- the built-ins implement that table on the heap representation ------------- *)
(* o is an object of the heap whose own pairs hold `field = x` *)
Definition holds (st : state) (o : val) (field : string) (x : val) : Prop :=
  exists id rec p, o = VObj id /\ get_obj st id = Some rec /\ oproto rec = Some p /\
                   assoc field (opairs rec) = Some x.

Lemma as_obj_self st id rec p :
  get_obj st id = Some rec -> oproto rec = Some p -> as_obj W st (VObj id) = Some id.
Proof.
  intros G P. unfold as_obj, trace, chain_fuel.
  replace (length (heap st) + 16) with (S (length (heap st) + 15)) by lia.
  cbn [trace_fuel proto_of]. rewrite G, P. reflexivity.
Qed.

Lemma either_field_holds st o field what x :
  holds st o field x -> either_field W o field what st = (Ok x, st).
Proof.
  intros (id & rec & p & -> & G & P & A).
  unfold either_field, own_pairs, bind, get_st, ret.
  rewrite (as_obj_self _ _ _ _ G P), G, A. reflexivity.
Qed.

Lemma EVal_val st o v args kw : holds st o "_value" v ->
  call_builtin W R env B_EVal_val (o :: args) kw st = (Ok (acc_val (EV v)), st).
Proof.
  intros H. cbn [call_builtin arg0 nth_error need]. unfold bind at 1, ret at 1.
  now apply either_field_holds.
Qed.

Lemma EVal_A st o v args kw : holds st o "_value" v ->
  call_builtin W R env B_EVal_A (o :: args) kw st = (Ok (acc_A (EV v)), st).
Proof.
  intros H. cbn [call_builtin arg0 nth_error need]. unfold bind at 1, ret at 1.
  unfold bind. rewrite (either_field_holds _ _ _ _ _ H). reflexivity.
Qed.

Lemma EVal_err o args kw st :
  call_builtin W R env B_EVal_err (o :: args) kw st = (Ok (acc_err (EV o)), st).
Proof. reflexivity. Qed.

Lemma EVal_or st o v d args kw : holds st o "_value" v ->
  call_builtin W R env B_EVal_or (o :: d :: args) kw st = (Ok (acc_or (EV v) d), st).
Proof. intros H. cbn [call_builtin]. now apply either_field_holds. Qed.

Lemma EErr_err st o k m args kw : holds st o "_error" (VErrW k m) ->
  call_builtin W R env B_EErr_err (o :: args) kw st = (Ok (acc_err (EE k m)), st).
Proof.
  intros H. cbn [call_builtin arg0 nth_error need]. unfold bind at 1, ret at 1.
  now apply either_field_holds.
Qed.

Lemma EErr_A st o k m args kw : holds st o "_error" (VErrW k m) ->
  call_builtin W R env B_EErr_A (o :: args) kw st = (Ok (acc_A (EE k m)), st).
Proof.
  intros H. cbn [call_builtin arg0 nth_error need]. unfold bind at 1, ret at 1.
  unfold bind. rewrite (either_field_holds _ _ _ _ _ H). reflexivity.
Qed.

Lemma EErr_val o k m args kw st :
  call_builtin W R env B_EErr_val (o :: args) kw st = (Ok (acc_val (EE k m)), st).
Proof. reflexivity. Qed.

Lemma EErr_or o d k m args kw st :
  call_builtin W R env B_EErr_or (o :: d :: args) kw st = (Ok (acc_or (EE k m) d), st).
Proof. reflexivity. Qed.

(* fmap on an error object returns the object itself without calling anything *)
Lemma EErr_fmap_skips o f args kw st :
  call_builtin W R env B_EErr_fmap (o :: f :: args) kw st = (Ok o, st).
Proof. reflexivity. Qed.

(* fmap on a value object calls the step once on the held value and wraps the outcome *)
Lemma EVal_fmap_calls_once st o v f args kw : holds st o "_value" v ->
  call_builtin W R env B_EVal_fmap (o :: f :: args) kw st =
  (r <- catch (call_step f v) ;;
   match r with
   | inl x => new_obj W [("_value"%string, x)] (wkv W "EitherVal")
   | inr (k, m) => new_obj W [("_error"%string, VErrW k m)] (wkv W "EitherErr")
   end) st.
Proof.
  intros H. cbn [call_builtin]. unfold bind at 1. rewrite (either_field_holds _ _ _ _ _ H).
  reflexivity.
Qed.

End Either.
