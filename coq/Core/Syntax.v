(* PanCore syntax: a mirror of the node types of /repo/ast/ast.go. Terms of this
   type are never written by hand: the harness sub-command `ast2coq` prints them
   from what the real parser (parser.Parse) produced, so the model evaluates
   exactly the tree the implementation evaluates. *)
From Coq Require Import ZArith String List.

Inductive mainchain := Scalar | ListC | Reduce.
Inductive addchain := Vanilla | Lonely | Thoughtful | Strict.
Inductive jump := JReturn | JRaise | JYield | JDefer.

Inductive expr :=
| EInt (z : Z)
| EFloat (bits : Z) (text : string)       (* IEEE-754 bits; text = Go's Inspect of the value *)
| EStr (s : string)
| ESym (s : string)
| ERange (a b c : option expr)
| EArr (es : list expr)
| EObj (ps : list (pkey * expr)) (emb : list expr)
| EMap (ps : list (pkey * expr)) (emb : list expr)
| EFunc (f : funcomp)
| EIter (f : funcomp)
| EDiamond
| EIdent (x : string)
| EAssign (x : string) (e : expr)
| EIf (c t : expr) (e : option expr)
| EEmbStr (pieces : list (string * expr)) (latter : string)  (* source order *)
| EPrefix (op : string) (e : expr)
| EInfix (op : string) (l r : expr)
| EPropCall (add : addchain) (main : mainchain) (carg : option expr) (recv : option expr)
            (prop : string) (args : list expr) (kwargs : list (string * expr))
| ELitCall (add : addchain) (main : mainchain) (carg : option expr) (recv : option expr) (f : funcomp)
| EVarCall (add : addchain) (main : mainchain) (carg : option expr) (recv : option expr) (x : string)
| EUnsup (why : string)
with pkey :=
| KIdent (x : string)         (* {a: 1}  — sugar for 'a *)
| KPinned (x : string)        (* {^a: 1} — value of variable a *)
| KExpr (e : expr)
with stmt :=
| SExpr (e : expr)
| SJump (j : jump) (e : expr)
| SJumpIf (j : jump) (e : expr) (cond : expr)
with funcomp :=
| FC (params : list string)               (* identifier parameters, in order *)
     (kwparams : list (string * expr))    (* keyword parameters with defaults, source order *)
     (body : list stmt)
     (code : string).                     (* FuncComponent.String(), what Inspect prints *)
