(* PanCore values, interpreter state, the evaluation monad and the pure helpers
   (printing, prototype walks) shared by the built-ins and the interpreter.
   Follows /repo/object/*.go; see DESIGN.md Appendix D. *)
From Coq Require Import ZArith String Ascii List Bool Arith.
From PanVerif Require Import Base.Int64 Core.Syntax.
Import ListNotations.
Local Open Scope string_scope.

(* ---- built-in Go functions that the model implements ------------------- *)
Inductive bfn :=
| B_Obj_p | B_Obj_S | B_Obj_B | B_Obj_not | B_Obj_repr | B_Obj_try | B_Obj_new | B_Obj_which
| B_Obj_keys | B_Obj_values | B_Obj_items | B_Obj_iter | B_Obj_callProp
| B_Base_eq | B_Base_at | B_Base_bear | B_Base_proto
| B_Int_add | B_Int_sub | B_Int_mul | B_Int_pow | B_Int_div | B_Int_fdiv | B_Int_mod | B_Int_cmp
| B_Int_eq | B_Int_neq | B_Int_neg | B_Int_B | B_Int_iter | B_Int_new | B_Int_bear | B_Int_incBy | B_Int_at
| B_Str_add | B_Str_mul | B_Str_eq | B_Str_cmp | B_Str_B | B_Str_len | B_Str_at | B_Str_iter | B_Str_new
| B_Str_uc | B_Str_lc | B_Str_symp | B_Str_incBy
| B_Arr_add | B_Arr_mul | B_Arr_eq | B_Arr_B | B_Arr_len | B_Arr_at | B_Arr_iter | B_Arr_new | B_Arr_call
| B_Arr_has | B_Arr_join | B_Arr_O | B_Arr_M | B_Arr_bear | B_Float_B | B_Float_eq | B_Float_cmp
| B_Map_eq | B_Map_B | B_Map_len | B_Map_at | B_Map_iter | B_Map_keys | B_Map_values | B_Map_items
| B_Range_eq | B_Range_B | B_Range_iter | B_Range_new | B_Range_start | B_Range_stop | B_Range_step
| B_Nil_eq | B_Nil_B | B_Nil_new | B_Nil_add | B_Nil_sub | B_Nil_mul
| B_Func_call | B_Func_eq | B_Func_B | B_Num_floor
| B_Iter_new | B_Iter_next | B_Iter_iter | B_Iter_eq | B_Iter_B
| B_EVal_A | B_EVal_val | B_EVal_err | B_EVal_or | B_EVal_fmap
| B_EErr_A | B_EErr_val | B_EErr_err | B_EErr_or | B_EErr_fmap
| B_Err_new (kind : string) | B_Err_eq | B_Err_msg | B_Err_type
| B_Kernel_assert | B_Kernel_assertEq | B_Kernel_assertRaises
| B_Recur (fid : nat)                 (* the `recur` injected into an iterator's frame *)
| B_Unknown (name : string).

Definition bfn_table : list (string * bfn) :=
  [("Obj#p", B_Obj_p); ("Obj#S", B_Obj_S); ("Obj#B", B_Obj_B); ("Obj#!", B_Obj_not);
   ("Obj#repr", B_Obj_repr); ("Obj#try", B_Obj_try); ("Obj#new", B_Obj_new); ("Obj#which", B_Obj_which);
   ("Obj#keys", B_Obj_keys); ("Obj#values", B_Obj_values); ("Obj#items", B_Obj_items);
   ("Obj#_iter", B_Obj_iter); ("Obj#callProp", B_Obj_callProp);
   ("BaseObj#==", B_Base_eq); ("BaseObj#at", B_Base_at); ("BaseObj#bear", B_Base_bear);
   ("BaseObj#proto", B_Base_proto);
   ("Int#+", B_Int_add); ("Int#-", B_Int_sub); ("Int#*", B_Int_mul); ("Int#**", B_Int_pow);
   ("Int#/", B_Int_div); ("Int#//", B_Int_fdiv); ("Int#%", B_Int_mod); ("Int#<=>", B_Int_cmp);
   ("Int#==", B_Int_eq); ("Int#!=", B_Int_neq); ("Int#-%", B_Int_neg); ("Int#B", B_Int_B);
   ("Int#_iter", B_Int_iter); ("Int#new", B_Int_new); ("Int#bear", B_Int_bear); ("Int#_incBy", B_Int_incBy); ("Int#at", B_Int_at);
   ("Str#+", B_Str_add); ("Str#*", B_Str_mul); ("Str#==", B_Str_eq); ("Str#<=>", B_Str_cmp);
   ("Str#B", B_Str_B); ("Str#len", B_Str_len); ("Str#at", B_Str_at); ("Str#_iter", B_Str_iter);
   ("Str#new", B_Str_new); ("Str#_incBy", B_Str_incBy); ("Str#uc", B_Str_uc); ("Str#lc", B_Str_lc); ("Str#sym?", B_Str_symp);
   ("Arr#+", B_Arr_add); ("Arr#*", B_Arr_mul); ("Arr#==", B_Arr_eq); ("Arr#B", B_Arr_B);
   ("Arr#len", B_Arr_len); ("Arr#at", B_Arr_at); ("Arr#_iter", B_Arr_iter); ("Arr#new", B_Arr_new);
   ("Arr#call", B_Arr_call); ("Arr#has?", B_Arr_has); ("Arr#join", B_Arr_join); ("Arr#O", B_Arr_O);
   ("Arr#M", B_Arr_M); ("Arr#bear", B_Arr_bear); ("Float#B", B_Float_B); ("Float#==", B_Float_eq); ("Float#<=>", B_Float_cmp);
   ("Map#==", B_Map_eq); ("Map#B", B_Map_B); ("Map#len", B_Map_len); ("Map#at", B_Map_at);
   ("Map#_iter", B_Map_iter); ("Map#keys", B_Map_keys); ("Map#values", B_Map_values); ("Map#items", B_Map_items);
   ("Range#==", B_Range_eq); ("Range#B", B_Range_B); ("Range#_iter", B_Range_iter); ("Range#new", B_Range_new);
   ("Range#start", B_Range_start); ("Range#stop", B_Range_stop); ("Range#step", B_Range_step);
   ("Nil#==", B_Nil_eq); ("Nil#B", B_Nil_B); ("Nil#new", B_Nil_new); ("Nil#+", B_Nil_add);
   ("Nil#-", B_Nil_sub); ("Nil#*", B_Nil_mul);
   ("Func#call", B_Func_call); ("Func#==", B_Func_eq); ("Func#B", B_Func_B); ("Num#floor", B_Num_floor);
   ("Iter#new", B_Iter_new); ("Iter#next", B_Iter_next); ("Iter#_iter", B_Iter_iter);
   ("Iter#==", B_Iter_eq); ("Iter#B", B_Iter_B);
   ("EitherVal#A", B_EVal_A); ("EitherVal#val", B_EVal_val); ("EitherVal#err", B_EVal_err);
   ("EitherVal#or", B_EVal_or); ("EitherVal#fmap", B_EVal_fmap);
   ("EitherErr#A", B_EErr_A); ("EitherErr#val", B_EErr_val); ("EitherErr#err", B_EErr_err);
   ("EitherErr#or", B_EErr_or); ("EitherErr#fmap", B_EErr_fmap);
   ("Err#new", B_Err_new "Err"); ("AssertionErr#new", B_Err_new "AssertionErr");
   ("NameErr#new", B_Err_new "NameErr"); ("NoPropErr#new", B_Err_new "NoPropErr");
   ("NotImplementedErr#new", B_Err_new "NotImplementedErr"); ("StopIterErr#new", B_Err_new "StopIterErr");
   ("SyntaxErr#new", B_Err_new "SyntaxErr"); ("TypeErr#new", B_Err_new "TypeErr");
   ("ValueErr#new", B_Err_new "ValueErr"); ("ZeroDivisionErr#new", B_Err_new "ZeroDivisionErr");
   ("Err#==", B_Err_eq); ("Err#msg", B_Err_msg); ("Err#type", B_Err_type);
   ("Kernel#assert", B_Kernel_assert); ("Kernel#assertEq", B_Kernel_assertEq);
   ("Kernel#assertRaises", B_Kernel_assertRaises)].

Scheme Equality for ascii.
Scheme Equality for string.
Scheme Equality for bfn.

Fixpoint assoc {A} (k : string) (l : list (string * A)) : option A :=
  match l with
  | [] => None
  | (k', v) :: t => if String.eqb k k' then Some v else assoc k t
  end.

Definition bi (name : string) : bfn :=
  match assoc name bfn_table with Some b => b | None => B_Unknown name end.

(* ---- values ------------------------------------------------------------ *)
Inductive val :=
| VInt (p : val) (z : Z)
| VFloat (bits : Z) (text : string)
| VStr (p : val) (s : string)
| VBool (b : bool)
| VNil (p : val)
| VArr (p : val) (es : list val)
| VRange (p : val) (a b c : val)
| VMap (p : val) (sc : list (val * val)) (ns : list (val * val))
| VObj (id : nat)                 (* a PanObj; its record lives in the heap *)
| VFunc (id : nat)                (* a PanFunc (function or iterator literal) *)
| VBuiltin (b : bfn)
| VBIter (id : nat)               (* a PanBuiltInIter *)
| VErrW (k m : string)            (* PanErrWrapper: an error held as a value *)
| VErrObj (k m : string)          (* a PanErr bound to a name (`_`): raises when read *)
| VIO
| VOther (d : string).

Inductive fkind := KFunc | KIter.

Record objrec := { oproto : option val; ozero : option val; opairs : list (string * val) }.
Record frame := { fstore : list (string * val); fouter : option nat }.
Record clo := { ckind : fkind; cparams : list string; ckw : list (string * val);
                cbody : list stmt; ccode : string; cenv : nat }.
Inductive biter :=
| BIList (rest : list val)                 (* arr / str / obj / map iterators *)
| BICount (next : Z) (max : Z)             (* Int#_iter: 1..max *)
| BIRange (cur stop step : Z)              (* Range#_iter over ints *)
| BIGen (cur stop : val) (step : Z).       (* Range#_iter over anything else: `<=>` decides the end, `_incBy` gives the next value *)

Record state := {
  heap : list objrec;      (* append-only *)
  frames : list frame;
  funcs : list clo;        (* only the env of an iterator changes (recur) *)
  biters : list biter;
  out : list string;       (* chunks written to stdout, latest first *)
  inp : list string        (* stdin lines not yet consumed *)
}.

(* mkclo is what the world translator emits for native functions *)
Definition mkclo (k : fkind) (ps : list string) (kw : list (string * val))
           (body : list stmt) (code : string) (env : nat) : clo :=
  {| ckind := k; cparams := ps; ckw := kw; cbody := body; ccode := code; cenv := env |}.

(* ---- outcomes and the evaluation monad --------------------------------- *)
Inductive res (A : Type) :=
| Ok (a : A)
| Er (k m : string)        (* a raised Pangaea error: kind, message *)
| Fuel                     (* the model ran out of fuel: case is discarded *)
| Unsup (why : string).    (* outside the modelled sub-language: case is discarded *)
Arguments Ok {A}. Arguments Er {A}. Arguments Fuel {A}. Arguments Unsup {A}.

Definition M (A : Type) := state -> res A * state.
Definition ret {A} (a : A) : M A := fun st => (Ok a, st).
Definition raise {A} (k m : string) : M A := fun st => (Er k m, st).
Definition unsup {A} (w : string) : M A := fun st => (Unsup w, st).
Definition nofuel {A} : M A := fun st => (Fuel, st).
Definition bind {A B} (m : M A) (f : A -> M B) : M B :=
  fun st => match m st with
            | (Ok a, st') => f a st'
            | (Er k m, st') => (Er k m, st')
            | (Fuel, st') => (Fuel, st')
            | (Unsup w, st') => (Unsup w, st')
            end.
Notation "x <- m ;; k" := (bind m (fun x => k)) (at level 61, m at next level, right associativity).
Notation "' p <- m ;; k" := (bind m (fun x => let p := x in k))
  (at level 61, p pattern, m at next level, right associativity).
Definition get_st : M state := fun st => (Ok st, st).
Definition put_st (s : state) : M unit := fun _ => (Ok tt, s).
(* try: turn a raised error into a value (used by thoughtful chains, Either, B) *)
Definition catch {A} (m : M A) : M (A + (string * string)) :=
  fun st => match m st with
            | (Ok a, st') => (Ok (inl a), st')
            | (Er k e, st') => (Ok (inr (k, e)), st')
            | (Fuel, st') => (Fuel, st')
            | (Unsup w, st') => (Unsup w, st')
            end.

Fixpoint mapM {A B} (f : A -> M B) (l : list A) : M (list B) :=
  match l with
  | [] => ret []
  | a :: t => b <- f a ;; bs <- mapM f t ;; ret (b :: bs)
  end.

(* ---- list / string utilities ------------------------------------------- *)
Fixpoint upd_nth {A} (n : nat) (x : A) (l : list A) : list A :=
  match l, n with
  | [], _ => []
  | _ :: t, O => x :: t
  | h :: t, S n => h :: upd_nth n x t
  end.

Fixpoint set_assoc {A} (k : string) (v : A) (l : list (string * A)) : list (string * A) :=
  match l with
  | [] => [(k, v)]
  | (k', v') :: t => if String.eqb k k' then (k, v) :: t else (k', v') :: set_assoc k v t
  end.

(* first occurrence wins: add (k,v) only if k is not there yet *)
Definition add_first {A} (k : string) (v : A) (l : list (string * A)) : list (string * A) :=
  match assoc k l with Some _ => l | None => l ++ [(k, v)] end.

Fixpoint sb (l : list nat) : string :=
  match l with [] => EmptyString | n :: t => String (ascii_of_nat n) (sb t) end.

Definition digit (n : Z) : string := String (ascii_of_nat (48 + Z.to_nat n)) EmptyString.
Fixpoint pos_dec (fuel : nat) (z : Z) (acc : string) : string :=
  match fuel with
  | O => acc
  | S f => if (z <? 10)%Z then digit z ++ acc
           else pos_dec f (z / 10)%Z (digit (z mod 10)%Z ++ acc)
  end.
Definition Z_to_string (z : Z) : string :=
  if (z <? 0)%Z then "-" ++ pos_dec 25 (- z)%Z "" else pos_dec 25 z "".

Fixpoint join (sep : string) (l : list string) : string :=
  match l with
  | [] => ""
  | [x] => x
  | x :: t => x ++ sep ++ join sep t
  end.

Fixpoint str_contains_char (c : ascii) (s : string) : bool :=
  match s with EmptyString => false | String d t => Ascii.eqb c d || str_contains_char c t end.
Fixpoint str_replace_char (c : ascii) (by_ : string) (s : string) : string :=
  match s with
  | EmptyString => EmptyString
  | String d t => if Ascii.eqb c d then by_ ++ str_replace_char c by_ t else String d (str_replace_char c by_ t)
  end.

Definition str_ltb (a b : string) : bool :=
  match String.compare a b with Lt => true | _ => false end.

(* insertion sort by a string key, stable *)
Fixpoint ins_sorted {A} (key : A -> string) (x : A) (l : list A) : list A :=
  match l with
  | [] => [x]
  | y :: t => if str_ltb (key x) (key y) then x :: y :: t else y :: ins_sorted key x t
  end.
Definition sort_by {A} (key : A -> string) (l : list A) : list A :=
  fold_left (fun acc x => ins_sorted key x acc) l [].

(* object.isPublic: ^[a-zA-Z][a-zA-Z0-9_]*[!?]?$ *)
Definition is_alpha (c : ascii) : bool :=
  let n := nat_of_ascii c in ((65 <=? n)%nat && (n <=? 90)%nat) || ((97 <=? n)%nat && (n <=? 122)%nat).
Definition is_alnum_ (c : ascii) : bool :=
  let n := nat_of_ascii c in is_alpha c || ((48 <=? n)%nat && (n <=? 57)%nat) || (n =? 95)%nat.
Fixpoint ident_tail (s : string) : bool :=
  match s with
  | EmptyString => true
  | String c EmptyString => is_alnum_ c || (nat_of_ascii c =? 33)%nat || (nat_of_ascii c =? 63)%nat
  | String c t => is_alnum_ c && ident_tail t
  end.
Definition is_public (s : string) : bool :=
  match s with String c t => is_alpha c && ident_tail t | EmptyString => false end.

(* object.isSym: public | _public | \digits | \name | operator *)
Definition is_digit (c : ascii) : bool := let n := nat_of_ascii c in ((48 <=? n)%nat && (n <=? 57)%nat).
Fixpoint all_digits (s : string) : bool :=
  match s with EmptyString => true | String c t => is_digit c && all_digits t end.
Definition op_syms : list string :=
  ["<=>"; "=="; "!="; ">="; "<="; ">"; "<"; "<<"; ">>"; "/&"; "/|"; "/^"; "/~"; "!"; "+"; "-"; "*"; "**"; "/"; "//"; "%"; "-%"; "+%"].
Definition is_sym (s : string) : bool :=
  is_public s ||
  match s with
  | String c t =>
      if (nat_of_ascii c =? 95)%nat then is_public t
      else if (nat_of_ascii c =? 92)%nat then
        all_digits t || match t with
                        | String d u => (is_alpha d || (nat_of_ascii d =? 95)%nat) && ident_tail u
                        | EmptyString => false
                        end
      else false
  | EmptyString => false
  end || existsb (String.eqb s) op_syms.

(* strings.ToUpper / ToLower on ASCII text; None when the text has a byte >= 128 (Unicode case tables are not modelled) *)
Fixpoint map_case (up : bool) (s : string) : option string :=
  match s with
  | EmptyString => Some EmptyString
  | String c t =>
      let n := nat_of_ascii c in
      if (128 <=? n)%nat then None else
      match map_case up t with
      | None => None
      | Some t' =>
          let n' := if up then (if ((97 <=? n)%nat && (n <=? 122)%nat) then n - 32 else n)
                    else (if ((65 <=? n)%nat && (n <=? 90)%nat) then n + 32 else n) in
          Some (String (ascii_of_nat n') t')
      end
  end.

(* ---- well-known objects: ids are fixed by gen/World.v through a name table *)
Record wk := { wk_names : list (string * nat) }.
Definition wk_id (w : wk) (n : string) : nat :=
  match assoc n (wk_names w) with Some i => i | None => 0 end.
Definition wkv (w : wk) (n : string) : val := VObj (wk_id w n).

(* ---- heap access and prototype walks ------------------------------------ *)
Definition get_obj (st : state) (id : nat) : option objrec := nth_error (heap st) id.

Section WithWorld.
Variable W : wk.

Definition vInt (z : Z) : val := VInt (wkv W "Int") z.
Definition vStr (s : string) : val := VStr (wkv W "Str") s.
Definition vNil : val := VNil (wkv W "Nil").
Definition vArr (l : list val) : val := VArr (wkv W "Arr") l.
Definition vTrue := VBool true.
Definition vFalse := VBool false.
Definition vBool (b : bool) := VBool b.

(* Proto(): None only for BaseObj *)
Definition proto_of (st : state) (v : val) : option val :=
  match v with
  | VInt p _ | VStr p _ | VNil p | VArr p _ | VRange p _ _ _ | VMap p _ _ => Some p
  | VFloat _ _ => Some (wkv W "Float")
  | VBool b => Some (vInt (if b then 1 else 0)%Z)
  | VObj id => match get_obj st id with Some o => oproto o | None => None end
  | VFunc id => match nth_error (funcs st) id with
                | Some c => Some (wkv W (match ckind c with KFunc => "Func" | KIter => "Iter" end))
                | None => None end
  | VBuiltin _ => Some (wkv W "Func")
  | VBIter _ => Some (wkv W "Iter")
  | VErrW k _ | VErrObj k _ => Some (wkv W k)
  | VIO => Some (wkv W "Obj")
  | VOther _ => Some (wkv W "Obj")
  end.

(* Zero(): the zero value an object stands for *)
Definition zero_of (st : state) (v : val) : val :=
  match v with
  | VObj id => match get_obj st id with
               | Some o => match ozero o with Some z => z | None => v end
               | None => v end
  | VNil _ => vNil
  | _ => v
  end.

(* own property (findProp): only PanObj carry properties *)
Definition own_prop (st : state) (v : val) (n : string) : option val :=
  match v with
  | VObj id => match get_obj st id with Some o => assoc n (opairs o) | None => None end
  | _ => None
  end.

(* FindPropAlongProtos / FindPropOwner: o, proto o, ... including BaseObj *)
Fixpoint find_prop_fuel (fuel : nat) (st : state) (v : val) (n : string) : option (val * val) :=
  match fuel with
  | O => None
  | S f => match own_prop st v n with
           | Some p => Some (p, v)
           | None => match proto_of st v with
                     | Some p => find_prop_fuel f st p n
                     | None => None
                     end
           end
  end.
Definition chain_fuel (st : state) : nat := length (heap st) + 16.
Definition find_prop (st : state) (v : val) (n : string) : option val :=
  option_map fst (find_prop_fuel (chain_fuel st) st v n).
Definition find_owner (st : state) (v : val) (n : string) : option val :=
  option_map snd (find_prop_fuel (chain_fuel st) st v n).

(* TraceProtoOfX: for o := obj; o.Proto() != nil; o = o.Proto() — BaseObj is never inspected *)
Fixpoint trace_fuel {A} (fuel : nat) (st : state) (pick : val -> option A) (v : val) : option A :=
  match fuel with
  | O => None
  | S f => match proto_of st v with
           | None => None
           | Some p => match pick v with
                       | Some a => Some a
                       | None => trace_fuel f st pick p
                       end
           end
  end.
Definition trace {A} (st : state) (pick : val -> option A) (v : val) : option A :=
  trace_fuel (chain_fuel st) st pick v.

Definition is_wk (v : val) (n : string) : bool :=
  match v with VObj id => Nat.eqb id (wk_id W n) | _ => false end.

(* Int, Arr: value itself, or the Zero() of an object on the chain *)
Definition pick_int (st : state) (v : val) : option (val * Z) :=
  match v with
  | VInt p z => Some (p, z)
  | _ => match zero_of st v with VInt p z => Some (p, z) | _ => None end
  end.
Definition pick_arr (st : state) (v : val) : option (val * list val) :=
  match v with
  | VArr p l => Some (p, l)
  | _ => match zero_of st v with VArr p l => Some (p, l) | _ => None end
  end.
(* Str, Nil, Range, Map, Float: value itself, or the built-in object standing for its zero *)
Definition pick_str (st : state) (v : val) : option (val * string) :=
  match v with
  | VStr p s => Some (p, s)
  | _ => if is_wk v "Str" then Some (wkv W "Str", "") else None
  end.
Definition pick_nil (st : state) (v : val) : option unit :=
  match v with VNil _ => Some tt | _ => if is_wk v "Nil" then Some tt else None end.
Definition pick_range (st : state) (v : val) : option (val * val * val) :=
  match v with
  | VRange _ a b c => Some (a, b, c)
  | _ => if is_wk v "Range" then Some (vNil, vNil, vNil) else None
  end.
Definition pick_map (st : state) (v : val) : option (list (val * val) * list (val * val)) :=
  match v with
  | VMap _ sc ns => Some (sc, ns)
  | _ => if is_wk v "Map" then Some ([], []) else None
  end.
Definition pick_float (st : state) (v : val) : option Z :=
  match v with VFloat b _ => Some b | _ => if is_wk v "Float" then Some 0%Z else None end.
Definition pick_obj (st : state) (v : val) : option nat :=
  match v with VObj id => Some id | _ => None end.
Definition pick_func (st : state) (v : val) : option nat :=
  match v with VFunc id => Some id | _ => None end.
Definition pick_builtin (st : state) (v : val) : option bfn :=
  match v with VBuiltin b => Some b | _ => None end.
Definition pick_biter (st : state) (v : val) : option nat :=
  match v with VBIter id => Some id | _ => None end.
Definition pick_errw (st : state) (v : val) : option (string * string) :=
  match v with VErrW k m => Some (k, m) | _ => None end.
Definition pick_bool (st : state) (v : val) : option bool :=
  match v with VBool b => Some b | _ => None end.

Definition as_int st v := trace st (pick_int st) v.
Definition as_arr st v := trace st (pick_arr st) v.
Definition as_str st v := trace st (pick_str st) v.
Definition as_nil st v := trace st (pick_nil st) v.
Definition as_range st v := trace st (pick_range st) v.
Definition as_map st v := trace st (pick_map st) v.
Definition as_float st v := trace st (pick_float st) v.
Definition as_obj st v := trace st (pick_obj st) v.
Definition as_func st v := trace st (pick_func st) v.
Definition as_builtin st v := trace st (pick_builtin st) v.
Definition as_biter st v := trace st (pick_biter st) v.
Definition as_errw st v := trace st (pick_errw st) v.

(* ---- IEEE-754 binary64 comparison on bit patterns ------------------------------------- *)
Definition f_sign (b : Z) : bool := (9223372036854775808 <=? b)%Z.
Definition f_mag (b : Z) : Z := (b mod 9223372036854775808)%Z.
Definition f_nan (b : Z) : bool := (9218868437227405312 <? f_mag b)%Z.        (* exponent all ones, mantissa <> 0 *)
Definition f_key (b : Z) : Z := if f_sign b then (- f_mag b)%Z else f_mag b.   (* -0.0 and 0.0 have the same key *)
(* Go's ==, <, > on float64: all false when an operand is NaN *)
Definition f_eq (a b : Z) : bool := negb (f_nan a) && negb (f_nan b) && (f_key a =? f_key b)%Z.
Definition f_gt (a b : Z) : bool := negb (f_nan a) && negb (f_nan b) && (f_key a >? f_key b)%Z.

(* int64(math.Floor(f)) from the IEEE-754 bits; None for NaN, infinities and results outside int64 (Go's conversion is
   implementation-defined there) *)
Definition f_floor_int (b : Z) : option Z :=
  let e := (f_mag b / 4503599627370496)%Z in            (* biased exponent, 11 bits *)
  let m := (f_mag b mod 4503599627370496)%Z in          (* 52 mantissa bits *)
  if (e =? 2047)%Z then None
  else if (e =? 0)%Z then Some (if f_sign b && negb (m =? 0)%Z then (-1)%Z else 0%Z)
  else
    let sig := (4503599627370496 + m)%Z in
    let sh := (e - 1075)%Z in
    let mag_floor := if (0 <=? sh)%Z then (if (sh <=? 11)%Z then Some (sig * 2 ^ sh, true)%Z else None)
                     else Some ((sig / 2 ^ (- sh))%Z, ((sig mod 2 ^ (- sh)) =? 0)%Z) in
    match mag_floor with
    | None => None
    | Some (q, exact) =>
        let r := if f_sign b then (if exact then (- q)%Z else (- q - 1)%Z) else q in
        if ((-9223372036854775808 <=? r) && (r <=? 9223372036854775807))%Z then Some r else None
    end.

(* ---- Inspect() ----------------------------------------------------------- *)
Definition quote_str (s : string) : string :=
  if str_contains_char """"%char s
  then "`" ++ str_replace_char "`"%char "\`" s ++ "`"
  else """" ++ s ++ """".

Definition public_keys (ps : list (string * val)) : list string :=
  sort_by (fun x => x) (filter is_public (map fst ps)).
Definition private_keys (ps : list (string * val)) : list string :=
  sort_by (fun x => x) (filter (fun k => negb (is_public k)) (map fst ps)).

Fixpoint inspect (fuel : nat) (st : state) (v : val) : string :=
  match fuel with
  | O => "..."
  | S f =>
    let ins := inspect f st in
    let pairs_str (ps : list (string * string)) :=
        (* by printed key; keys that print alike (floats differing beyond the 6th decimal) by printed value *)
        join ", " (map (fun kv => fst kv ++ ": " ++ snd kv) (sort_by fst (sort_by snd ps))) in
    match v with
    | VInt _ z => Z_to_string z
    | VFloat _ t => t
    | VStr _ s => quote_str s
    | VBool b => if b then "true" else "false"
    | VNil _ => "nil"
    | VArr _ l => "[" ++ join ", " (map ins l) ++ "]"
    | VRange _ a b c => "(" ++ ins a ++ ":" ++ ins b ++ ":" ++ ins c ++ ")"
    | VMap _ sc ns =>
        let s1 := pairs_str (map (fun kv => (ins (fst kv), ins (snd kv))) sc) in
        let s2 := join ", " (map (fun kv => ins (fst kv) ++ ": " ++ ins (snd kv)) ns) in
        "%{" ++ (if (s1 =? "") then s2 else if (s2 =? "") then s1 else s1 ++ ", " ++ s2) ++ "}"
    | VObj id => match get_obj st id with
                 | Some o => "{" ++ pairs_str (map (fun kv => (quote_str (fst kv), ins (snd kv))) (opairs o)) ++ "}"
                 | None => "{?}"
                 end
    | VFunc id => match nth_error (funcs st) id with
                  | Some c => match ckind c with
                              | KFunc => "{" ++ ccode c ++ "}"
                              | KIter => "<{" ++ ccode c ++ "}>"
                              end
                  | None => "{?}"
                  end
    | VBuiltin _ => "{|| [builtin]}"
    | VBIter _ => "<{|| [builtin]}>"
    | VErrW k m => "[" ++ k ++ ": " ++ m ++ "]"
    | VErrObj k m => k ++ ": " ++ m
    | VIO => "IO"
    | VOther d => d
    end
  end.
Definition inspect_v (st : state) (v : val) : string := inspect 40 st v.

End WithWorld.
