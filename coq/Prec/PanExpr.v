(* C02 — the operator-precedence machine instantiated with Pangaea's operators and the
   documented table (Prec/PrecSpec.v); a printer that reproduces ast.Program.String();
   the fully parenthesised source text of a parse; and the comparison function used by
   the correspondence shards (gen/cases_C02_k.v).  Definitions only. *)
From Coq Require Import List String Bool Arith NArith.
Import ListNotations.
From PanVerif Require Import Prec.OpMachine Prec.PrecSpec.
Local Open Scope string_scope.

(* operands: opaque text (identifier, `f(x)` …: source text and what String() prints) or
   a numeric literal (needed because the grammar folds `-` into a numeric literal) *)
Inductive atom := AText (src show : string) | ANum (s : string).

Definition ptoken := token atom op.
Definition ptree := tree atom op.

Definition pparse (toks : list ptoken) : option ptree := parse pred toks.

Definition prefix_sym (p : prefixop) : string :=
  match p with PPlus => "+" | PMinus => "-" | PStar => "*" | PBang => "!" | PBitNot => "/~" end.

Definition jump_str (j : jump) : string :=
  match j with JReturn => "return" | JRaise => "raise" | JYield => "yield" | JDefer => "defer" end.

(* parser.go.y, prefixExpr -> MINUS expr: `-` applied to an int/float literal is a literal *)
Fixpoint numlit (t : ptree) : option string :=
  match t with
  | Atom (ANum s) => Some s
  | Paren t => numlit t
  | Pre (OPrefix PMinus) r =>
      match numlit r with Some s => Some ("-" ++ s) | None => None end
  | _ => None
  end.

(* ast/ast.go String(): InfixExpr, PrefixExpr, AssignExpr, IfExpr are printed inside
   parentheses; PropCallExpr, JumpStmt, JumpIfStmt and literals are not; grouping
   parentheses of the source are not recorded. *)
Fixpoint show (t : ptree) : string :=
  match t with
  | Atom (AText _ s) => s
  | Atom (ANum s) => s
  | Paren t => show t
  | In (OInfix i) l r => "(" ++ show l ++ " " ++ infix_sym i ++ " " ++ show r ++ ")"
  | In OIf l (In OElse b c) => "(" ++ show l ++ " if " ++ show b ++ " else " ++ show c ++ ")"
  | In OIf l r => "(" ++ show l ++ " if " ++ show r ++ ")"
  | In OJumpIf l r => show l ++ " if " ++ show r
  | In _ _ _ => "<bad infix>"
  | Pre (OPrefix p) r =>
      match numlit t with
      | Some s => s
      | None => "(" ++ prefix_sym p ++ show r ++ ")"
      end
  | Pre (OAssign x) r => "(" ++ x ++ " := " ++ show r ++ ")"
  | Pre (OCompound x i) r => "(" ++ x ++ " := (" ++ x ++ " " ++ infix_sym i ++ " " ++ show r ++ "))"
  | Pre (OJump j) r => jump_str j ++ " " ++ show r
  | Pre _ _ => "<bad prefix>"
  | Post (ORightAssign x) l => "(" ++ x ++ " := " ++ show l ++ ")"
  | Post (OChain _ _ s) l => show l ++ s
  | Post (OUnit _ _ s) l => show l ++ s
  | Post _ _ => "<bad postfix>"
  end.

(* which machine trees are sentences of the grammar: `else` only directly under its `if`,
   jump statements only at statement level, index/call only on a unit expression *)
Definition is_unit (t : ptree) : bool :=
  match t with
  | Atom _ | Paren _ => true
  | Post (OChain _ _ _) _ | Post (OUnit _ _ _) _ => true
  | _ => false
  end.

Fixpoint valid_e (t : ptree) : bool :=
  match t with
  | Atom _ => true
  | Paren t => valid_e t
  | In (OInfix _) l r => valid_e l && valid_e r
  | In OIf l (In OElse b c) => valid_e l && valid_e b && valid_e c
  | In OIf l r => valid_e l && valid_e r
  | In _ _ _ => false
  | Pre (OPrefix _) r => valid_e r
  | Pre (OAssign _) r => valid_e r
  | Pre (OCompound _ _) r => valid_e r
  | Pre _ _ => false
  | Post (ORightAssign _) l => valid_e l
  | Post (OChain _ _ _) l => valid_e l
  | Post (OUnit _ _ _) l => is_unit l && valid_e l
  | Post _ _ => false
  end.

Definition valid_stmt (t : ptree) : bool :=
  match t with
  | Pre (OJump _) r => valid_e r
  | In OJumpIf (Pre (OJump _) a) c => valid_e a && valid_e c
  | _ => valid_e t
  end.

Definition render_tree (o : option ptree) : string :=
  match o with
  | Some t => if valid_stmt t then show t else "<ungrammatical>"
  | None => "<no parse>"
  end.

Definition render (toks : list ptoken) : string := render_tree (pparse toks).

(* ---- source text ---------------------------------------------------------------- *)

(* the Pangaea source of a token list: blanks around infix operators, none after a
   prefix operator (one between two prefix operators so that `* *a` is not `**a`) *)
Fixpoint psrc_aux (prevpre : bool) (toks : list ptoken) : string :=
  match toks with
  | [] => ""
  | TAtom (AText s _) :: r => s ++ psrc_aux false r
  | TAtom (ANum s) :: r => s ++ psrc_aux false r
  | TIn (OInfix i) :: r => " " ++ infix_sym i ++ " " ++ psrc_aux false r
  | TIn OIf :: r => " if " ++ psrc_aux false r
  | TIn OJumpIf :: r => " if " ++ psrc_aux false r
  | TIn OElse :: r => " else " ++ psrc_aux false r
  | TPre (OPrefix p) :: r => (if prevpre then " " else "") ++ prefix_sym p ++ psrc_aux true r
  | TPre (OAssign x) :: r => x ++ " := " ++ psrc_aux false r
  | TPre (OCompound x i) :: r => x ++ " " ++ infix_sym i ++ "= " ++ psrc_aux false r
  | TPre (OJump j) :: r => jump_str j ++ " " ++ psrc_aux false r
  | TPost (ORightAssign x) :: r => " => " ++ x ++ psrc_aux false r
  | TPost (OChain _ s _) :: r => s ++ psrc_aux false r
  | TPost (OUnit _ s _) :: r => s ++ psrc_aux false r
  | TL :: r => "(" ++ psrc_aux false r
  | TR :: r => ")" ++ psrc_aux false r
  | _ :: r => "<?>" ++ psrc_aux false r
  end.

Definition psrc (toks : list ptoken) : string := psrc_aux false toks.

Definition else_of_if (o : op) (r : ptree) : bool :=
  match o, r with OIf, In OElse _ _ => true | _, _ => false end.

(* all the parentheses the table implies, in Pangaea's concrete syntax: every compound
   operand is wrapped, except that `else` stays directly under its `if` … *)
Fixpoint pfullpar (t : ptree) : ptree :=
  match t with
  | Atom a => Atom a
  | In o l r => In o (wrap (pfullpar l)) (if else_of_if o r then pfullpar r else wrap (pfullpar r))
  | Pre p r => Pre p (wrap (pfullpar r))
  | Post q l => Post q (wrap (pfullpar l))
  | Paren t => Paren (pfullpar t)
  end.

(* … and the jump statement of a jump-if is not an expression *)
Definition pfullpar_stmt (t : ptree) : ptree :=
  match t with
  | In OJumpIf (Pre (OJump j) a) c => In OJumpIf (pfullpar (Pre (OJump j) a)) (wrap (pfullpar c))
  | _ => pfullpar t
  end.

Definition parsrc (toks : list ptoken) : string :=
  match pparse toks with
  | Some t => psrc (yield (pfullpar_stmt t))
  | None => ""
  end.

(* ---- correspondence ------------------------------------------------------------- *)

(* one case: id and token list *)
Definition pcase : Type := N * list ptoken.

(* per case: id; the machine's print (compared by the driver with ast.Program.String() of
   the real parser on [psrc toks]); whether the machine, given its own parse written with
   all implied parentheses, prints the same again; that fully parenthesised source, for
   the implementation to re-parse *)
Definition results (cs : list pcase) : list (N * string * bool * string) :=
  map (fun c : pcase =>
    let '(i, toks) := c in
    let o := pparse toks in
    let got := render_tree o in
    let fp := match o with Some t => yield (pfullpar_stmt t) | None => [] end in
    let again := render_tree (pparse fp) in
    (i, got, String.eqb again got, psrc fp)) cs.

(* short names for the generated shards *)
Definition a_ (s : string) : ptoken := TAtom (AText s s).
Definition t_ (src show : string) : ptoken := TAtom (AText src show).
Definition n_ (s : string) : ptoken := TAtom (ANum s).
Definition i_ (i : infix) : ptoken := TIn (OInfix i).
Definition if_ : ptoken := TIn OIf.
Definition else_ : ptoken := TIn OElse.
Definition jif_ : ptoken := TIn OJumpIf.
Definition p_ (p : prefixop) : ptoken := TPre (OPrefix p).
Definition as_ (x : string) : ptoken := TPre (OAssign x).
Definition ca_ (x : string) (i : infix) : ptoken := TPre (OCompound x i).
Definition j_ (j : jump) : ptoken := TPre (OJump j).
Definition ra_ (x : string) : ptoken := TPost (ORightAssign x).
Definition ch_ (src show : string) : ptoken := TPost (OChain false src show).
Definition mch_ (src show : string) : ptoken := TPost (OChain true src show).
Definition ix_ (src show : string) : ptoken := TPost (OUnit true src show).
Definition call_ (src show : string) : ptoken := TPost (OUnit false src show).
Definition L_ : ptoken := TL.
Definition R_ : ptoken := TR.
