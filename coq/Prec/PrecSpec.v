(* C02 — the documented precedence / associativity table as Coq data.

   Source 1: docs/reference/operators.md, section "Precedence" (18 rows, highest first).
   Source 2: the %left/%right lines 83-103 of parser/parser.go.y (21 lines, LOWEST first);
             the translator re-reads them on every run and LalrCheck.prec_decls_ok
             compares them with [spec_table] below.

   The grammar refines three rows of the documentation into two adjacent yacc levels each
   (ternary: IF < ELSE; jump statements: JUMP < JUMPIF; chain: multi-line chain < chain);
   [PrecSpecProofs.level_refines_rows] proves that the yacc numbering is a refinement of the documented
   order, so "grouping given by the documented table" and "grouping given by the levels"
   coincide wherever the documentation separates two constructs.

   Spelling notes (not part of C02): the documentation writes the bit-invert prefix
   operator as `~`; the lexer's spelling is `/~`.  The grammar also has a prefix `*`
   (unpack) at the prefix level, which the documentation does not list. *)
From Coq Require Import List String Bool Arith.
Import ListNotations.
Local Open Scope string_scope.
Local Open Scope nat_scope.

(* NonA is never used by the documented table; it only lets the translator represent a
   %nonassoc line, which then fails LalrCheck.prec_decls_ok *)
Inductive assoc := LeftA | RightA | NonA.

(* the 23 infix operators of the documentation, in the order of its "Infix" table *)
Inductive infix :=
| IPlus | IMinus | IStar | ISlash | IDoubleSlash | IPercent | IDoubleStar
| IEq | INeq | ITopicEq | ITopicNeq | ILt | IGt | ILe | IGe | ISpaceship
| ILShift | IRShift | IBitAnd | IBitOr | IBitXor | IAnd | IOr.

Definition all_infix : list infix :=
  [IPlus; IMinus; IStar; ISlash; IDoubleSlash; IPercent; IDoubleStar;
   IEq; INeq; ITopicEq; ITopicNeq; ILt; IGt; ILe; IGe; ISpaceship;
   ILShift; IRShift; IBitAnd; IBitOr; IBitXor; IAnd; IOr].

Definition infix_sym (i : infix) : string :=
  match i with
  | IPlus => "+" | IMinus => "-" | IStar => "*" | ISlash => "/" | IDoubleSlash => "//"
  | IPercent => "%" | IDoubleStar => "**"
  | IEq => "==" | INeq => "!=" | ITopicEq => "===" | ITopicNeq => "!=="
  | ILt => "<" | IGt => ">" | ILe => "<=" | IGe => ">=" | ISpaceship => "<=>"
  | ILShift => "<<" | IRShift => ">>" | IBitAnd => "/&" | IBitOr => "/|" | IBitXor => "/^"
  | IAnd => "&&" | IOr => "||"
  end.

(* yacc token name of each infix operator (parser.go.y, %token lines) *)
Definition infix_tok (i : infix) : string :=
  match i with
  | IPlus => "PLUS" | IMinus => "MINUS" | IStar => "STAR" | ISlash => "SLASH"
  | IDoubleSlash => "DOUBLE_SLASH" | IPercent => "PERCENT" | IDoubleStar => "DOUBLE_STAR"
  | IEq => "EQ" | INeq => "NEQ" | ITopicEq => "TOPIC_EQ" | ITopicNeq => "TOPIC_NEQ"
  | ILt => "LT" | IGt => "GT" | ILe => "LE" | IGe => "GE" | ISpaceship => "SPACESHIP"
  | ILShift => "BIT_LSHIFT" | IRShift => "BIT_RSHIFT" | IBitAnd => "BIT_AND"
  | IBitOr => "BIT_OR" | IBitXor => "BIT_XOR" | IAnd => "AND" | IOr => "OR"
  end.

(* ---- the documentation's table: 18 rows, highest precedence first ---------------- *)
Inductive row :=
| RIndexing        (* indexing `a[b]` *)
| RGrouping        (* grouping `()` *)
| RCalling         (* calling `a.b` *)
| RPrefix          (* prefix operators *)
| RChain           (* chain *)
| RPow             (* `**` *)
| RMul             (* `*`, `/`, `//`, `%` *)
| RAdd             (* `+`, `-` *)
| RShift           (* `<<`, `>>` *)
| RBitAnd          (* `/&` *)
| RBitOr           (* `/|`, `/^` *)
| RCompare         (* `<=>`, `==`, `!=`, `<=`, `>=`, `<`, `>`, `===`, `!==` *)
| RAnd             (* `&&` *)
| ROr              (* `||` *)
| RLeftAssign      (* left assign `a := 1`, compound assign `a += 1` *)
| RRightAssign     (* right assign `1 => a` *)
| RJump            (* jump statements `return x` *)
| RTernary.        (* ternary `a if b else c` *)

(* rank: larger binds tighter *)
Definition row_rank (r : row) : nat :=
  match r with
  | RIndexing => 18 | RGrouping => 17 | RCalling => 16 | RPrefix => 15 | RChain => 14
  | RPow => 13 | RMul => 12 | RAdd => 11 | RShift => 10 | RBitAnd => 9 | RBitOr => 8
  | RCompare => 7 | RAnd => 6 | ROr => 5 | RLeftAssign => 4 | RRightAssign => 3
  | RJump => 2 | RTernary => 1
  end.

Definition infix_row (i : infix) : row :=
  match i with
  | IDoubleStar => RPow
  | IStar | ISlash | IDoubleSlash | IPercent => RMul
  | IPlus | IMinus => RAdd
  | ILShift | IRShift => RShift
  | IBitAnd => RBitAnd
  | IBitOr | IBitXor => RBitOr
  | ISpaceship | IEq | INeq | ILe | IGe | ILt | IGt | ITopicEq | ITopicNeq => RCompare
  | IAnd => RAnd
  | IOr => ROr
  end.

(* ---- constructs that carry a precedence in the grammar --------------------------- *)
Inductive construct :=
| CIf | CElse | CJump | CJumpIf | CRightAssign | CAssign
| CInfix (i : infix)
| CChainML | CChain | CUnary | CCalling | CGrouping | CIndexing.

Definition crow (c : construct) : row :=
  match c with
  | CIf | CElse => RTernary
  | CJump | CJumpIf => RJump
  | CRightAssign => RRightAssign
  | CAssign => RLeftAssign
  | CInfix i => infix_row i
  | CChainML | CChain => RChain
  | CUnary => RPrefix
  | CCalling => RCalling
  | CGrouping => RGrouping
  | CIndexing => RIndexing
  end.

(* the level: position of the construct's %left/%right line, 1 = first = lowest *)
Definition level (c : construct) : nat :=
  match c with
  | CIf => 1 | CElse => 2 | CJump => 3 | CJumpIf => 4 | CRightAssign => 5 | CAssign => 6
  | CInfix i =>
      match infix_row i with
      | ROr => 7 | RAnd => 8 | RCompare => 9 | RBitOr => 10 | RBitAnd => 11 | RShift => 12
      | RAdd => 13 | RMul => 14 | _ => 15
      end
  | CChainML => 16 | CChain => 17 | CUnary => 18 | CCalling => 19 | CGrouping => 20
  | CIndexing => 21
  end.

(* binary operators of equal level group left-to-right, assignment right-to-left *)
Definition cassoc (c : construct) : assoc :=
  match c with CAssign => RightA | _ => LeftA end.

Definition is_left (a : assoc) : bool := match a with LeftA => true | _ => false end.

(* THE decision: construct [c1] is complete on the stack, a token of construct [c2] is
   the lookahead: reduce iff c1 binds tighter, or equally and its level is left-assoc.
   The `if` of a jump-if statement (`return a if c`) is the exception written into the
   grammar: nothing can follow a jump-if inside its statement, so its condition always
   extends to the end of the statement (yacc never consults JUMPIF's level). *)
Definition cred (c1 c2 : construct) : bool :=
  match c1 with
  | CJumpIf => false
  | _ => (level c2 <? level c1) || ((level c1 =? level c2) && is_left (cassoc c1))
  end.

Definition all_constructs : list construct :=
  [CIf; CElse; CJump; CJumpIf; CRightAssign; CAssign] ++ map CInfix all_infix ++
  [CChainML; CChain; CUnary; CCalling; CGrouping; CIndexing].

Definition refines_b : bool :=
  forallb (fun c1 => forallb (fun c2 =>
     implb (row_rank (crow c1) <? row_rank (crow c2)) (level c1 <? level c2))
     all_constructs) all_constructs.

(* ---- the table by yacc token name: what the %left/%right lines must say ----------- *)
Definition spec_table : list (string * construct) :=
  [("IF", CIf); ("ELSE", CElse); ("JUMP", CJump); ("JUMPIF", CJumpIf);
   ("RIGHT_ASSIGN", CRightAssign); ("ASSIGN", CAssign); ("COMPOUND_ASSIGN", CAssign)]
  ++ map (fun i => (infix_tok i, CInfix i)) all_infix ++
  [("MULTILINE_ADD_CHAIN", CChainML); ("MULTILINE_MAIN_CHAIN", CChainML);
   ("ADD_CHAIN", CChain); ("MAIN_CHAIN", CChain); ("UNARY_OP", CUnary);
   ("CALLING", CCalling); ("GROUPING", CGrouping); ("INDEXING", CIndexing)].

Fixpoint assoc_str {B} (k : string) (l : list (string * B)) : option B :=
  match l with
  | [] => None
  | (k', v) :: r => if String.eqb k k' then Some v else assoc_str k r
  end.

Definition tok_construct (t : string) : option construct := assoc_str t spec_table.

(* ---- operators of the machine (Prec/OpMachine.v instantiated for Pangaea) --------- *)
Inductive prefixop := PPlus | PMinus | PStar | PBang | PBitNot.
Inductive jump := JReturn | JRaise | JYield | JDefer.

Inductive op :=
(* infix *)
| OInfix (i : infix)
| OIf | OElse
| OJumpIf                                 (* the `if` of `return a if c` *)
(* prefix constructs *)
| OPrefix (p : prefixop)
| OAssign (x : string)                    (* x := … *)
| OCompound (x : string) (i : infix)      (* x op= … *)
| OJump (j : jump)
(* postfix constructs *)
| ORightAssign (x : string)               (* … => x *)
| OChain (multiline : bool) (src show : string)  (* … .b   … .b(x)  (source text, printed suffix) *)
| OUnit (index : bool) (src show : string).      (* index … [i] (true) / call … (x) (false) on a unit *)

(* the construct whose level decides when the operator is pending on the stack *)
Definition stack_construct (o : op) : option construct :=
  match o with
  | OInfix i => Some (CInfix i)
  | OIf => Some CIf | OElse => Some CElse | OJumpIf => Some CJumpIf
  | OPrefix _ => Some CUnary
  | OAssign _ | OCompound _ _ => Some CAssign
  | OJump _ => Some CJump
  | ORightAssign _ | OChain _ _ _ | OUnit _ _ _ => None    (* complete at once *)
  end.

(* the construct of the operator's first token when it is the lookahead *)
Definition look_construct (o : op) : option construct :=
  match o with
  | OInfix i => Some (CInfix i)
  | OIf | OJumpIf => Some CIf | OElse => Some CElse
  | ORightAssign _ => Some CRightAssign
  | OChain true _ _ => Some CChainML | OChain false _ _ => Some CChain
  | OUnit true _ _ => Some CIndexing | OUnit false _ _ => Some CCalling
  | OPrefix _ | OAssign _ | OCompound _ _ | OJump _ => None   (* never a lookahead after an operand *)
  end.

Definition pred (o1 o2 : op) : bool :=
  match stack_construct o1, look_construct o2 with
  | Some c1, Some c2 => cred c1 c2
  | _, _ => false
  end.
