(* C02 — the fully parenthesised form used by the correspondence ([PanExpr.pfullpar_stmt])
   is an instance of "adding parentheses around sub-trees" ([OpMachine.addpar]), so
   [paren_stable] applies to it: for the documented table, writing the implied
   parentheses never changes the parse. *)
From Coq Require Import List String Bool.
Import ListNotations.
From PanVerif Require Import Prec.OpMachine Prec.OpMachineProofs Prec.PrecSpec Prec.PanExpr.

Lemma addpar_wrap : forall t t' : ptree, addpar t t' -> addpar t (wrap t').
Proof. intros t t' H. destruct t'; cbn; try exact H; apply ap_wrap; exact H. Qed.

Lemma pfullpar_addpar : forall t : ptree, addpar t (pfullpar t).
Proof.
  induction t as [a|o l IHl r IHr|p r IHr|q l IHl|t IHt]; cbn [pfullpar].
  - constructor.
  - constructor; [apply addpar_wrap; exact IHl|].
    destruct (else_of_if o r); [exact IHr|apply addpar_wrap; exact IHr].
  - constructor. apply addpar_wrap. exact IHr.
  - constructor. apply addpar_wrap. exact IHl.
  - constructor. exact IHt.
Qed.

Lemma pfullpar_stmt_addpar : forall t : ptree, addpar t (pfullpar_stmt t).
Proof.
  intros t. unfold pfullpar_stmt.
  destruct t as [a|o l r|p r|q l|t]; try apply pfullpar_addpar.
  destruct o; try apply pfullpar_addpar.
  destruct l as [a|o' l' r'|p r'|q l'|t']; try apply pfullpar_addpar.
  destruct p; try apply pfullpar_addpar.
  constructor; [apply pfullpar_addpar|apply addpar_wrap, pfullpar_addpar].
Qed.

(* Adding the parentheses that the documented table implies never changes the parse. *)
Theorem pangaea_paren_stable : forall (toks : list ptoken) (t : ptree),
  pparse toks = Some t ->
  pparse (yield (pfullpar_stmt t)) = Some (pfullpar_stmt t) /\
  strip (pfullpar_stmt t) = strip t.
Proof.
  intros toks t H. apply (paren_stable atom op pred toks t); [exact H|apply pfullpar_stmt_addpar].
Qed.
