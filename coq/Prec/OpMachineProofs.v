(* C02 — correctness of the operator-precedence machine, for ALL token lists and ANY
   decision function [red] (hence for any precedence table):

     machine_yield      parse toks = Some t -> yield t = toks
     machine_well_prec  parse toks = Some t -> wp red t
     machine_complete   wp red t -> parse (yield t) = Some t
     well_prec_unique   wp t1 -> wp t2 -> yield t1 = yield t2 -> t1 = t2
     paren_fixpoint     the fully parenthesised form of any tree parses to itself
     paren_stable       adding any parentheses to a well-precedenced tree does not
                        change the parse
     wp_local_iff       for a level/associativity table and infix-only trees, [wp] is the
                        root-local condition of DESIGN.md *)
From Coq Require Import List Bool Arith Lia.
Import ListNotations.
From PanVerif Require Import Prec.OpMachine.

Section Proofs.
Variables A O : Type.
Variable red : O -> O -> bool.

Notation token := (token A O).
Notation tree := (tree A O).
Notation entry := (entry A O).
Notation reduce := (reduce red).
Notation run := (run red).
Notation parse := (parse red).
Notation wp := (wp red).

(* ------------------------------------------------------------------ yield *)

Definition yentry (e : entry) : list token :=
  match e with
  | EIn l o => yield l ++ [TIn o]
  | EPre p => [TPre p]
  | EParen => [TL]
  end.

Fixpoint ystack (S : list entry) : list token :=
  match S with
  | [] => []
  | e :: S' => ystack S' ++ yentry e
  end.

Definition ycur (c : option tree) : list token :=
  match c with Some t => yield t | None => [] end.

Lemma reduce_yield : forall look S t S' t',
  reduce look S t = (S', t') -> ystack S' ++ yield t' = ystack S ++ yield t.
Proof.
  intros look S. induction S as [|e S IH]; intros t S' t' H; cbn in H.
  - inversion H; subst. reflexivity.
  - destruct e as [l o|p|].
    + destruct (red o look).
      * apply IH in H. rewrite H. cbn. rewrite <- !app_assoc. reflexivity.
      * inversion H; subst. reflexivity.
    + destruct (red p look).
      * apply IH in H. rewrite H. cbn. rewrite <- !app_assoc. reflexivity.
      * inversion H; subst. reflexivity.
    + inversion H; subst. reflexivity.
Qed.

Lemma unwind_yield : forall S t S' t' b,
  unwind S t = (S', t', b) ->
  ystack S ++ yield t = ystack S' ++ (if b then [TL] else []) ++ yield t' /\
  (b = false -> S' = []).
Proof.
  induction S as [|e S IH]; intros t S' t' b H; cbn in H.
  - inversion H; subst. split; reflexivity.
  - destruct e as [l o|p|].
    + apply IH in H. destruct H as [H1 H2]. split; [|exact H2].
      rewrite <- H1. cbn. rewrite <- !app_assoc. reflexivity.
    + apply IH in H. destruct H as [H1 H2]. split; [|exact H2].
      rewrite <- H1. cbn. rewrite <- !app_assoc. reflexivity.
    + inversion H; subst. split; [|discriminate].
      cbn. rewrite <- !app_assoc. reflexivity.
Qed.

Lemma run_yield : forall (toks : list token) S cur r,
  run S cur toks = Some r -> yield r = ystack S ++ ycur cur ++ toks.
Proof.
  induction toks as [|tk rest IH]; intros S cur r H; cbn in H.
  - destruct cur as [t|]; [|discriminate].
    destruct (unwind S t) as [[S' t'] b] eqn:U. destruct b; [discriminate|].
    inversion H; subst. apply unwind_yield in U. destruct U as [U1 U2].
    rewrite (U2 eq_refl) in U1. cbn in *. rewrite app_nil_r. symmetry. exact U1.
  - destruct cur as [t|]; destruct tk as [a|p|o|q| |]; try discriminate.
    + (* Some t, TIn o *)
      destruct (reduce o S t) as [S' t'] eqn:R.
      apply IH in H. apply reduce_yield in R. rewrite H. cbn.
      rewrite <- !app_assoc. rewrite app_assoc. rewrite R. rewrite <- !app_assoc. reflexivity.
    + (* Some t, TPost q *)
      destruct (reduce q S t) as [S' t'] eqn:R.
      apply IH in H. apply reduce_yield in R. rewrite H. cbn.
      rewrite <- !app_assoc. rewrite app_assoc. rewrite R. rewrite <- !app_assoc. reflexivity.
    + (* Some t, TR *)
      destruct (unwind S t) as [[S' t'] b] eqn:U. destruct b; [|discriminate].
      apply IH in H. apply unwind_yield in U. destruct U as [U1 _]. rewrite H. cbn.
      rewrite app_assoc. rewrite U1. cbn. rewrite <- !app_assoc. reflexivity.
    + (* None, TAtom *)
      apply IH in H. rewrite H. reflexivity.
    + (* None, TPre *)
      apply IH in H. rewrite H. cbn. rewrite <- !app_assoc. reflexivity.
    + (* None, TL *)
      apply IH in H. rewrite H. cbn. rewrite <- !app_assoc. reflexivity.
Qed.

Theorem machine_yield : forall (toks : list token) t, parse toks = Some t -> yield t = toks.
Proof. intros toks t H. apply run_yield in H. exact H. Qed.

(* ---------------------------------------------------------- well-precedenced *)

Definition eblocks (e : entry) (o' : O) : Prop :=
  match e with
  | EIn _ o => red o o' = false
  | EPre p => red p o' = false
  | EParen => True
  end.

Definition top_ok (S : list entry) (sp : list O) : Prop :=
  match S with e :: _ => Forall (eblocks e) sp | [] => True end.

Definition elspine (e : entry) : list O :=
  match e with EIn l o => o :: lspine l | _ => [] end.

Definition entry_ok (e : entry) : Prop :=
  match e with
  | EIn l o => wp l /\ Forall (fun o' => red o' o = true) (rspine l)
  | _ => True
  end.

Fixpoint stack_ok (S : list entry) : Prop :=
  match S with
  | [] => True
  | e :: S' => entry_ok e /\ top_ok S' (elspine e) /\ stack_ok S'
  end.

Lemma top_ok_nil : forall S, top_ok S [].
Proof. destruct S; cbn; auto. Qed.

Lemma top_ok_tail : forall S o sp, top_ok S (o :: sp) -> top_ok S sp.
Proof. destruct S; cbn; auto. intros o sp H. inversion H; auto. Qed.

Lemma reduce_ok : forall look S t S' t',
  stack_ok S -> wp t -> top_ok S (lspine t) ->
  Forall (fun o' => red o' look = true) (rspine t) ->
  reduce look S t = (S', t') ->
  stack_ok S' /\ wp t' /\ top_ok S' (lspine t') /\
  Forall (fun o' => red o' look = true) (rspine t') /\ top_ok S' [look].
Proof.
  intros look S. induction S as [|e S IH]; intros t S' t' HS Ht Htop Hr H; cbn in H.
  - inversion H; subst. cbn. auto.
  - destruct e as [l o|p|].
    + destruct (red o look) eqn:E.
      * cbn in HS. destruct HS as [[Hl Hlr] [Hc HS]].
        apply IH in H; auto.
        -- cbn. cbn in Htop. auto.
        -- cbn. constructor; auto.
      * inversion H; subst. split; [exact HS|]. split; [exact Ht|]. split; [exact Htop|].
        split; [exact Hr|]. cbn. constructor; auto.
    + destruct (red p look) eqn:E.
      * cbn in HS. destruct HS as [_ [Hc HS]].
        apply IH in H; auto.
        -- cbn. cbn in Htop. auto.
        -- cbn. constructor; auto.
      * inversion H; subst. split; [exact HS|]. split; [exact Ht|]. split; [exact Htop|].
        split; [exact Hr|]. cbn. constructor; auto.
    + inversion H; subst. split; [exact HS|]. split; [exact Ht|]. split; [exact Htop|].
      split; [exact Hr|]. cbn. constructor; cbn; auto.
Qed.

Lemma unwind_ok : forall S t S' t' b,
  stack_ok S -> wp t -> top_ok S (lspine t) ->
  unwind S t = (S', t', b) -> stack_ok S' /\ wp t'.
Proof.
  induction S as [|e S IH]; intros t S' t' b HS Ht Htop H; cbn in H.
  - inversion H; subst. auto.
  - destruct e as [l o|p|]; cbn in HS.
    + destruct HS as [[Hl Hlr] [Hc HS]]. apply IH in H; auto.
      cbn. cbn in Htop. auto.
    + destruct HS as [_ [Hc HS]]. apply IH in H; auto.
      cbn. cbn in Htop. auto.
    + destruct HS as [_ [_ HS]]. inversion H; subst. auto.
Qed.

Definition cur_ok (S : list entry) (cur : option tree) : Prop :=
  match cur with
  | Some t => wp t /\ top_ok S (lspine t) /\ rspine t = []
  | None => True
  end.

Lemma top_ok_cons : forall S o sp, top_ok S [o] -> top_ok S sp -> top_ok S (o :: sp).
Proof.
  destruct S as [|e S]; cbn; auto. intros o sp H1 H2. inversion H1; subst. constructor; auto.
Qed.

Lemma run_wp : forall (toks : list token) S cur r,
  stack_ok S -> cur_ok S cur -> run S cur toks = Some r -> wp r.
Proof.
  induction toks as [|tk rest IH]; intros S cur r HS Hc H; cbn in H.
  - destruct cur as [t|]; [|discriminate]. destruct Hc as [Ht [Htop _]].
    destruct (unwind S t) as [[S' t'] b] eqn:U. destruct b; [discriminate|].
    inversion H; subst.
    destruct (unwind_ok _ _ _ _ _ HS Ht Htop U) as [_ Hw]. exact Hw.
  - destruct cur as [t|]; destruct tk as [a|p|o|q| |]; try discriminate.
    + destruct Hc as [Ht [Htop Hrs]].
      destruct (reduce o S t) as [S' t'] eqn:R.
      assert (Hr0 : Forall (fun o' => red o' o = true) (rspine t)) by (rewrite Hrs; constructor).
      destruct (reduce_ok _ _ _ _ _ HS Ht Htop Hr0 R) as [HS' [Ht' [Htop' [Hr' Hlook]]]].
      apply (IH (EIn t' o :: S') None r); [|exact I|exact H].
      cbn. split; [split; assumption|]. split; [|assumption].
      apply top_ok_cons; assumption.
    + destruct Hc as [Ht [Htop Hrs]].
      destruct (reduce q S t) as [S' t'] eqn:R.
      assert (Hr0 : Forall (fun o' => red o' q = true) (rspine t)) by (rewrite Hrs; constructor).
      destruct (reduce_ok _ _ _ _ _ HS Ht Htop Hr0 R) as [HS' [Ht' [Htop' [Hr' Hlook]]]].
      apply (IH S' (Some (Post q t')) r); [assumption| |exact H].
      cbn. split; [split; assumption|]. split; [|reflexivity].
      apply top_ok_cons; assumption.
    + destruct Hc as [Ht [Htop Hrs]].
      destruct (unwind S t) as [[S' t'] b] eqn:U. destruct b; [|discriminate].
      destruct (unwind_ok _ _ _ _ _ HS Ht Htop U) as [HS' Ht'].
      apply (IH S' (Some (Paren t')) r); [assumption| |exact H].
      cbn. split; [assumption|]. split; [apply top_ok_nil|reflexivity].
    + apply (IH S (Some (Atom a)) r); [assumption| |exact H].
      cbn. split; [exact I|]. split; [apply top_ok_nil|reflexivity].
    + apply (IH (EPre p :: S) None r); [|exact I|exact H].
      cbn. split; [exact I|]. split; [apply top_ok_nil|assumption].
    + apply (IH (EParen :: S) None r); [|exact I|exact H].
      cbn. split; [exact I|]. split; [apply top_ok_nil|assumption].
Qed.

Theorem machine_well_prec : forall (toks : list token) t, parse toks = Some t -> wp t.
Proof. intros toks t H. apply (run_wp toks [] None t); [exact I|exact I|exact H]. Qed.

(* ------------------------------------------------------------ completeness *)

(* the stack that the machine holds after reading [yield t], before it has seen
   what follows: the right spine of [t], innermost entry on top *)
Fixpoint rdec (t : tree) : list entry * tree :=
  match t with
  | In o l r => let (St, u) := rdec r in (St ++ [EIn l o], u)
  | Pre p r => let (St, u) := rdec r in (St ++ [EPre p], u)
  | _ => ([], t)
  end.

Lemma reduce_rdec : forall look t S,
  Forall (fun o' => red o' look = true) (rspine t) ->
  reduce look (fst (rdec t) ++ S) (snd (rdec t)) = reduce look S t.
Proof.
  intros look. induction t as [a|o l IHl r IHr|p r IHr|q l IHl|t IHt]; intros S H; cbn; auto.
  - cbn in H. inversion H as [|x xs Hx Hxs]; subst.
    destruct (rdec r) as [St u] eqn:E. cbn in *.
    rewrite <- app_assoc. cbn. rewrite IHr; auto. cbn. rewrite Hx. reflexivity.
  - cbn in H. inversion H as [|x xs Hx Hxs]; subst.
    destruct (rdec r) as [St u] eqn:E. cbn in *.
    rewrite <- app_assoc. cbn. rewrite IHr; auto. cbn. rewrite Hx. reflexivity.
Qed.

Lemma unwind_rdec : forall t S,
  unwind (fst (rdec t) ++ S) (snd (rdec t)) = unwind S t.
Proof.
  induction t as [a|o l IHl r IHr|p r IHr|q l IHl|t IHt]; intros S; cbn; auto.
  - destruct (rdec r) as [St u] eqn:E. cbn in *.
    rewrite <- app_assoc. cbn. rewrite IHr. reflexivity.
  - destruct (rdec r) as [St u] eqn:E. cbn in *.
    rewrite <- app_assoc. cbn. rewrite IHr. reflexivity.
Qed.

Lemma reduce_blocked : forall look S t, top_ok S [look] -> reduce look S t = (S, t).
Proof.
  intros look S t H. destruct S as [|e S]; cbn; auto.
  destruct e as [l o|p|]; cbn in H; auto.
  - inversion H as [|x xs Hx _]; subst. cbn in Hx. rewrite Hx. reflexivity.
  - inversion H as [|x xs Hx _]; subst. cbn in Hx. rewrite Hx. reflexivity.
Qed.

Lemma top_ok_head : forall S o sp, top_ok S (o :: sp) -> top_ok S [o].
Proof.
  destruct S; cbn; auto. intros o sp H. inversion H; subst. constructor; auto.
Qed.

Lemma run_rdec : forall t : tree, wp t -> forall S rest,
  top_ok S (lspine t) ->
  run S None (yield t ++ rest) = run (fst (rdec t) ++ S) (Some (snd (rdec t))) rest.
Proof.
  induction t as [a|o l IHl r IHr|p r IHr|q l IHl|t IHt]; intros Hwp S rest Htop.
  - reflexivity.
  - cbn in Hwp. destruct Hwp as [Hl [Hr [Hlr Hrl]]]. cbn in Htop.
    cbn [yield]. rewrite <- app_assoc. rewrite IHl; auto; [|eapply top_ok_tail; eauto].
    cbn [app]. cbn [OpMachine.run].
    rewrite reduce_rdec; auto.
    rewrite reduce_blocked; [|eapply top_ok_head; eauto].
    rewrite IHr; auto.
    cbn [rdec]. destruct (rdec r) as [St u]. cbn [fst snd].
    rewrite <- app_assoc. reflexivity.
  - cbn in Hwp. destruct Hwp as [Hr Hrl].
    cbn [yield app]. cbn [OpMachine.run].
    rewrite IHr; auto.
    cbn [rdec]. destruct (rdec r) as [St u]. cbn [fst snd].
    rewrite <- app_assoc. reflexivity.
  - cbn in Hwp. destruct Hwp as [Hl Hlr]. cbn in Htop.
    cbn [yield]. rewrite <- app_assoc. rewrite IHl; auto; [|eapply top_ok_tail; eauto].
    cbn [app]. cbn [OpMachine.run].
    rewrite reduce_rdec; auto.
    rewrite reduce_blocked; [|eapply top_ok_head; eauto].
    reflexivity.
  - cbn in Hwp.
    cbn [yield app]. cbn [OpMachine.run].
    rewrite <- app_assoc. rewrite IHt; auto.
    + cbn [app]. cbn [OpMachine.run]. rewrite unwind_rdec. reflexivity.
    + cbn. clear. induction (lspine t); constructor; cbn; auto.
Qed.

Theorem machine_complete : forall t : tree, wp t -> parse (yield t) = Some t.
Proof.
  intros t H. unfold OpMachine.parse.
  rewrite <- (app_nil_r (yield t)). rewrite run_rdec; auto; [|exact I].
  cbn [OpMachine.run]. rewrite unwind_rdec. reflexivity.
Qed.

Theorem well_prec_unique : forall t1 t2 : tree,
  wp t1 -> wp t2 -> yield t1 = yield t2 -> t1 = t2.
Proof.
  intros t1 t2 H1 H2 Hy.
  apply machine_complete in H1. apply machine_complete in H2.
  rewrite Hy in H1. rewrite H1 in H2. inversion H2. reflexivity.
Qed.

(* the parse of a list is THE well-precedenced tree with that yield *)
Corollary machine_spec : forall (toks : list token) t,
  parse toks = Some t <-> (yield t = toks /\ wp t).
Proof.
  intros toks t. split.
  - intros H. split; [apply machine_yield|apply (machine_well_prec toks)]; auto.
  - intros [Hy Hw]. subst. apply machine_complete; auto.
Qed.

(* ------------------------------------------------------------ parentheses *)

Lemma lspine_wrap : forall t : tree, lspine (wrap t) = [] \/ wrap t = t.
Proof. destruct t; cbn; auto. Qed.

Lemma wp_wrap : forall t : tree, wp t -> wp (wrap t).
Proof. destruct t; cbn; auto. Qed.

Lemma spines_wrap_fullpar : forall t : tree,
  lspine (wrap (fullpar t)) = [] /\ rspine (wrap (fullpar t)) = [].
Proof. destruct t; cbn; auto. Qed.

Lemma fullpar_wp : forall t : tree, wp (fullpar t).
Proof.
  induction t as [a|o l IHl r IHr|p r IHr|q l IHl|t IHt]; cbn; auto.
  - destruct (spines_wrap_fullpar l) as [_ E1]. destruct (spines_wrap_fullpar r) as [E2 _].
    rewrite E1, E2. repeat split; auto using wp_wrap.
  - destruct (spines_wrap_fullpar r) as [E2 _]. rewrite E2. split; auto using wp_wrap.
  - destruct (spines_wrap_fullpar l) as [_ E1]. rewrite E1. split; auto using wp_wrap.
Qed.

Lemma strip_wrap : forall t : tree, strip (wrap t) = strip t.
Proof. destruct t; reflexivity. Qed.

Lemma strip_fullpar : forall t : tree, strip (fullpar t) = strip t.
Proof.
  induction t; cbn; rewrite ?strip_wrap; congruence.
Qed.

(* Whatever tree is meant — in particular the tree the table implies, i.e. the
   parse of some token list — writing it with all its parentheses and parsing
   again gives that tree back (parentheses are not recorded by ast String()). *)
Theorem paren_fixpoint : forall t : tree,
  parse (yield (fullpar t)) = Some (fullpar t) /\ strip (fullpar t) = strip t.
Proof.
  intros t. split; [apply machine_complete, fullpar_wp|apply strip_fullpar].
Qed.

Corollary parse_paren_fixpoint : forall (toks : list token) t,
  parse toks = Some t ->
  exists t', parse (yield (fullpar t)) = Some t' /\ strip t' = strip t.
Proof.
  intros toks t _. exists (fullpar t). apply paren_fixpoint.
Qed.

(* adding parentheses shortens spines *)
Lemma addpar_lspine : forall t t' : tree, addpar t t' ->
  exists s, lspine t = lspine t' ++ s.
Proof.
  induction 1; cbn; try (eexists; reflexivity).
  - destruct IHaddpar1 as [s E]. exists s. rewrite E. reflexivity.
  - destruct IHaddpar as [s E]. exists s. rewrite E. reflexivity.
Qed.

Lemma addpar_rspine : forall t t' : tree, addpar t t' ->
  exists s, rspine t = rspine t' ++ s.
Proof.
  induction 1; cbn; try (eexists; reflexivity).
  - destruct IHaddpar2 as [s E]. exists s. rewrite E. reflexivity.
  - destruct IHaddpar as [s E]. exists s. rewrite E. reflexivity.
Qed.

Lemma Forall_prefix : forall (P : O -> Prop) a b, Forall P (a ++ b) -> Forall P a.
Proof. intros P a b H. apply Forall_app in H. tauto. Qed.

Lemma addpar_wp : forall t t' : tree, addpar t t' -> wp t -> wp t'.
Proof.
  induction 1; cbn; auto.
  - intros [Hl [Hr [Hlr Hrl]]].
    destruct (addpar_rspine _ _ H) as [s1 E1]. destruct (addpar_lspine _ _ H0) as [s2 E2].
    rewrite E1 in Hlr. rewrite E2 in Hrl.
    repeat split; auto; eapply Forall_prefix; eauto.
  - intros [Hr Hrl]. destruct (addpar_lspine _ _ H) as [s2 E2]. rewrite E2 in Hrl.
    split; auto. eapply Forall_prefix; eauto.
  - intros [Hl Hlr]. destruct (addpar_rspine _ _ H) as [s1 E1]. rewrite E1 in Hlr.
    split; auto. eapply Forall_prefix; eauto.
Qed.

Lemma addpar_strip : forall t t' : tree, addpar t t' -> strip t' = strip t.
Proof. induction 1; cbn; congruence. Qed.

(* "Adding the parentheses that the table implies never changes the parse":
   take the parse [t] of a token list, put parentheses around any of its
   sub-trees, print: the result parses to the same tree (with those parentheses). *)
Theorem paren_stable : forall (toks : list token) t t',
  parse toks = Some t -> addpar t t' ->
  parse (yield t') = Some t' /\ strip t' = strip t.
Proof.
  intros toks t t' H Hap. split.
  - apply machine_complete. eapply addpar_wp; eauto. eapply machine_well_prec; eauto.
  - apply addpar_strip; auto.
Qed.

(* --------------------------------------------------------------- boolean wp *)

Lemma wpb_iff : forall t : tree, wpb red t = true <-> wp t.
Proof.
  induction t as [a|o l IHl r IHr|p r IHr|q l IHl|t IHt]; cbn.
  - tauto.
  - rewrite !andb_true_iff, !forallb_forall, !Forall_forall, IHl, IHr.
    split; intros [[[H1 H2] H3] H4] || intros [H1 [H2 [H3 H4]]]; repeat split; auto;
      intros x Hx.
    + apply H4 in Hx. apply negb_true_iff in Hx. exact Hx.
    + apply negb_true_iff. auto.
  - rewrite !andb_true_iff, !forallb_forall, !Forall_forall, IHr.
    split; intros [H1 H2]; split; auto; intros x Hx.
    + apply H2 in Hx. apply negb_true_iff in Hx. exact Hx.
    + apply negb_true_iff. auto.
  - rewrite !andb_true_iff, !forallb_forall, !Forall_forall, IHl. tauto.
  - exact IHt.
Qed.

End Proofs.

(* ------------------------------------------- level tables, root-local form *)

Section Levels.
Variables A O : Type.
Variable lvl : O -> nat.
Variable lassoc : O -> bool.   (* true: the operator's level groups left-to-right *)

Definition red_of_table (o1 o2 : O) : bool :=
  (lvl o2 <? lvl o1) || ((lvl o1 =? lvl o2) && lassoc o1).

Notation redt := red_of_table.

Lemma redt_true : forall o1 o2,
  redt o1 o2 = true <-> lvl o2 < lvl o1 \/ (lvl o1 = lvl o2 /\ lassoc o1 = true).
Proof.
  intros. unfold red_of_table.
  rewrite orb_true_iff, andb_true_iff, Nat.ltb_lt, Nat.eqb_eq. tauto.
Qed.

Lemma redt_false : forall o1 o2,
  redt o1 o2 = false <-> lvl o1 < lvl o2 \/ (lvl o1 = lvl o2 /\ lassoc o1 = false).
Proof.
  intros. unfold red_of_table.
  rewrite orb_false_iff, andb_false_iff, Nat.ltb_ge, Nat.eqb_neq.
  destruct (lassoc o1); intuition (try discriminate; try lia).
Qed.

(* the two "transitivity" facts the local formulation relies on *)
Lemma redt_down : forall o o1 o2,
  redt o1 o = true -> redt o1 o2 = false -> redt o2 o = true.
Proof.
  intros o o1 o2 H1 H2. apply redt_true in H1. apply redt_false in H2. apply redt_true.
  destruct H1 as [H1|[H1 H1']]; destruct H2 as [H2|[H2 H2']]; try lia.
  rewrite H1' in H2'. discriminate.
Qed.

Lemma redt_up : forall o o1 o2,
  redt o o1 = false -> redt o2 o1 = true -> redt o o2 = false.
Proof.
  intros o o1 o2 H1 H2. apply redt_false in H1. apply redt_true in H2. apply redt_false.
  destruct H1 as [H1|[H1 H1']]; destruct H2 as [H2|[H2 H2']]; try lia.
  right. split; [lia|auto].
Qed.

Lemma local_rspine : forall (t : tree A O) o,
  infix_only t -> wp_local redt t ->
  (forall o1, root t = Some o1 -> redt o1 o = true) ->
  Forall (fun o' => redt o' o = true) (rspine t).
Proof.
  induction t as [a|o1 l IHl r IHr|p r IHr|q l IHl|t IHt]; intros o Hi Hw Hroot; cbn; auto.
  - cbn in Hi, Hw. destruct Hi as [Hil Hir]. destruct Hw as [Hwl [Hwr [Hl Hr]]].
    assert (E : redt o1 o = true) by (apply Hroot; reflexivity).
    constructor; auto. apply IHr; auto.
    intros o2 Ho2. eapply redt_down; eauto.
  - cbn in Hi. contradiction.
Qed.

Lemma local_lspine : forall (t : tree A O) o,
  infix_only t -> wp_local redt t ->
  (forall o1, root t = Some o1 -> redt o o1 = false) ->
  Forall (fun o' => redt o o' = false) (lspine t).
Proof.
  induction t as [a|o1 l IHl r IHr|p r IHr|q l IHl|t IHt]; intros o Hi Hw Hroot; cbn; auto.
  - cbn in Hi, Hw. destruct Hi as [Hil Hir]. destruct Hw as [Hwl [Hwr [Hl Hr]]].
    assert (E : redt o o1 = false) by (apply Hroot; reflexivity).
    constructor; auto. apply IHl; auto.
    intros o2 Ho2. eapply redt_up; eauto.
  - cbn in Hi. contradiction.
Qed.

Theorem wp_local_iff : forall t : tree A O,
  infix_only t -> (wp redt t <-> wp_local redt t).
Proof.
  induction t as [a|o l IHl r IHr|p r IHr|q l IHl|t IHt]; cbn; intros Hi; try tauto.
  destruct Hi as [Hil Hir]. specialize (IHl Hil). specialize (IHr Hir). split.
  - intros [Hl [Hr [Hlr Hrl]]]. repeat split; try tauto.
    + intros o1 Ho1. destruct l; try discriminate. cbn in Ho1. inversion Ho1; subst.
      cbn in Hlr. inversion Hlr; auto.
    + intros o2 Ho2. destruct r; try discriminate. cbn in Ho2. inversion Ho2; subst.
      cbn in Hrl. inversion Hrl; auto.
  - intros [Hl [Hr [Hlr Hrl]]]. repeat split; try tauto.
    + apply local_rspine; auto.
    + apply local_lspine; auto.
Qed.

End Levels.
