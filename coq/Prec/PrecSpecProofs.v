(* C02 — facts about the transcribed table (Prec/PrecSpec.v), all by computation. *)
From Coq Require Import List String Bool Arith.
Import ListNotations.
From PanVerif Require Import Prec.PrecSpec.

Lemma all_infix_complete : forall i, In i all_infix.
Proof. destruct i; cbv; tauto. Qed.

Lemma all_constructs_complete : forall c, In c all_constructs.
Proof.
  intros c. unfold all_constructs. apply in_or_app.
  destruct c; try (left; cbv; tauto); right; apply in_or_app.
  - left. apply in_map. apply all_infix_complete.
  - right; cbv; tauto.
  - right; cbv; tauto.
  - right; cbv; tauto.
  - right; cbv; tauto.
  - right; cbv; tauto.
  - right; cbv; tauto.
Qed.

(* the grammar's levels refine the documented rows *)
Lemma level_refines_rows : forall c1 c2,
  row_rank (crow c1) < row_rank (crow c2) -> level c1 < level c2.
Proof.
  assert (H : refines_b = true) by (vm_compute; reflexivity).
  intros c1 c2 Hlt. unfold refines_b in H. rewrite forallb_forall in H.
  specialize (H c1 (all_constructs_complete c1)). rewrite forallb_forall in H.
  specialize (H c2 (all_constructs_complete c2)).
  apply Nat.ltb_lt in Hlt. rewrite Hlt in H. cbn in H. apply Nat.ltb_lt. exact H.
Qed.

(* the 23 infix operators fall into 9 levels, all left-associative *)
Lemma infix_levels : forall i, 7 <= level (CInfix i) <= 15 /\ cassoc (CInfix i) = LeftA.
Proof. destruct i; cbv; repeat split; repeat constructor. Qed.

