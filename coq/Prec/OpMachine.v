(* C02 — the shift–reduce operator-precedence machine (definitions only).

   The machine is generic in the atom type [A], the operator type [O] and the
   decision function [red : O -> O -> bool]:

       red o1 o2 = true   — with [o1] pending on the stack and [o2] as lookahead, REDUCE
       red o1 o2 = false  — SHIFT

   This is exactly what yacc derives from %left/%right/%prec declarations for a state
   that contains a completed item of the rule carrying [o1] and an item that can
   shift [o2]; the instance used for Pangaea is in Prec/PrecSpec.v ([red] computed
   from the documented precedence table).

   Token lists:   E ::= { PRE }* ( atom | '(' E ')' ) { POST }*  [ IN E ]
   - IN   binary infix operator (the 23 operators, [if], [else])
   - PRE  prefix construct: unary operator, [x :=], [x +=], [return]
   - POST postfix construct: chain/call [.b(..)], index [[i]], right assignment [=> x]
   - parentheses are a barrier on the stack, as in the LALR automaton. *)
From Coq Require Import List Bool.
Import ListNotations.

Section Machine.
Variables A O : Type.
Variable red : O -> O -> bool.

Inductive token :=
| TAtom (a : A)
| TPre (p : O)
| TIn (o : O)
| TPost (q : O)
| TL
| TR.

Inductive tree :=
| Atom (a : A)
| In (o : O) (l r : tree)
| Pre (p : O) (r : tree)
| Post (q : O) (l : tree)
| Paren (t : tree).

(* stack entries: a left operand with its pending infix operator, a pending prefix
   construct, or an open parenthesis *)
Inductive entry :=
| EIn (l : tree) (o : O)
| EPre (p : O)
| EParen.

(* in-order yield *)
Fixpoint yield (t : tree) : list token :=
  match t with
  | Atom a => [TAtom a]
  | In o l r => yield l ++ TIn o :: yield r
  | Pre p r => TPre p :: yield r
  | Post q l => yield l ++ [TPost q]
  | Paren t => TL :: yield t ++ [TR]
  end.

(* pop while the table says Reduce for (top, lookahead); stops at a parenthesis *)
Fixpoint reduce (look : O) (S : list entry) (t : tree) : list entry * tree :=
  match S with
  | EIn l o :: S' => if red o look then reduce look S' (In o l t) else (S, t)
  | EPre p :: S' => if red p look then reduce look S' (Pre p t) else (S, t)
  | _ => (S, t)
  end.

(* pop everything down to the innermost open parenthesis (true) or the bottom (false) *)
Fixpoint unwind (S : list entry) (t : tree) : list entry * tree * bool :=
  match S with
  | EIn l o :: S' => unwind S' (In o l t)
  | EPre p :: S' => unwind S' (Pre p t)
  | EParen :: S' => (S', t, true)
  | [] => ([], t, false)
  end.

(* [cur = None]: an operand is expected; [cur = Some t]: [t] has just been completed
   and an operator (or the end) is expected. *)
Fixpoint run (S : list entry) (cur : option tree) (toks : list token) : option tree :=
  match toks with
  | [] =>
      match cur with
      | Some t => match unwind S t with (_, t', false) => Some t' | _ => None end
      | None => None
      end
  | tk :: rest =>
      match cur, tk with
      | None, TAtom a => run S (Some (Atom a)) rest
      | None, TPre p => run (EPre p :: S) None rest
      | None, TL => run (EParen :: S) None rest
      | Some t, TIn o => let '(S', t') := reduce o S t in run (EIn t' o :: S') None rest
      | Some t, TPost q => let '(S', t') := reduce q S t in run S' (Some (Post q t')) rest
      | Some t, TR =>
          match unwind S t with
          | (S', t', true) => run S' (Some (Paren t')) rest
          | _ => None
          end
      | _, _ => None
      end
  end.

Definition parse (toks : list token) : option tree := run [] None toks.

(* ---- the specification: well-precedenced trees --------------------------------- *)

(* operators met walking down the left (right) edge of a tree, as long as the
   sub-tree is open on that side; atoms, parentheses and the closed side of a
   prefix/postfix construct stop the walk *)
Fixpoint lspine (t : tree) : list O :=
  match t with
  | In o l _ => o :: lspine l
  | Post q l => q :: lspine l
  | _ => []
  end.

Fixpoint rspine (t : tree) : list O :=
  match t with
  | In o _ r => o :: rspine r
  | Pre p r => p :: rspine r
  | _ => []
  end.

(* [wp t]: every operator exposed on the right edge of a left operand would have been
   reduced when the parent operator arrived (it binds at least as tightly), and every
   operator exposed on the left edge of a right operand was shifted over the parent
   (it binds strictly tighter, or equally and the level is right-associative). *)
Fixpoint wp (t : tree) : Prop :=
  match t with
  | Atom _ => True
  | In o l r =>
      wp l /\ wp r /\
      Forall (fun o' => red o' o = true) (rspine l) /\
      Forall (fun o' => red o o' = false) (lspine r)
  | Pre p r => wp r /\ Forall (fun o' => red p o' = false) (lspine r)
  | Post q l => wp l /\ Forall (fun o' => red o' q = true) (rspine l)
  | Paren t => wp t
  end.

(* the same as a boolean, for evaluation *)
Fixpoint wpb (t : tree) : bool :=
  match t with
  | Atom _ => true
  | In o l r =>
      wpb l && wpb r &&
      forallb (fun o' => red o' o) (rspine l) &&
      forallb (fun o' => negb (red o o')) (lspine r)
  | Pre p r => wpb r && forallb (fun o' => negb (red p o')) (lspine r)
  | Post q l => wpb l && forallb (fun o' => red o' q) (rspine l)
  | Paren t => wpb t
  end.

(* root-local formulation of DESIGN.md (used for the pure infix fragment) *)
Definition root (t : tree) : option O :=
  match t with In o _ _ => Some o | _ => None end.

Fixpoint infix_only (t : tree) : Prop :=
  match t with
  | Atom _ => True
  | In _ l r => infix_only l /\ infix_only r
  | Paren t => infix_only t
  | _ => False
  end.

Fixpoint wp_local (t : tree) : Prop :=
  match t with
  | In o l r =>
      wp_local l /\ wp_local r /\
      (forall o1, root l = Some o1 -> red o1 o = true) /\
      (forall o2, root r = Some o2 -> red o o2 = false)
  | Paren t => wp_local t
  | _ => True
  end.

(* ---- parentheses ---------------------------------------------------------------- *)

(* remove every pair of parentheses *)
Fixpoint strip (t : tree) : tree :=
  match t with
  | Atom a => Atom a
  | In o l r => In o (strip l) (strip r)
  | Pre p r => Pre p (strip r)
  | Post q l => Post q (strip l)
  | Paren t => strip t
  end.

(* wrap a compound tree in parentheses *)
Definition wrap (t : tree) : tree :=
  match t with Atom _ => t | Paren _ => t | _ => Paren t end.

(* the fully parenthesised form: every compound operand is wrapped *)
Fixpoint fullpar (t : tree) : tree :=
  match t with
  | Atom a => Atom a
  | In o l r => In o (wrap (fullpar l)) (wrap (fullpar r))
  | Pre p r => Pre p (wrap (fullpar r))
  | Post q l => Post q (wrap (fullpar l))
  | Paren t => Paren (fullpar t)
  end.

(* [addpar t t']: t' is t with parentheses added around any set of sub-trees *)
Inductive addpar : tree -> tree -> Prop :=
| ap_atom a : addpar (Atom a) (Atom a)
| ap_in o l l' r r' : addpar l l' -> addpar r r' -> addpar (In o l r) (In o l' r')
| ap_pre p r r' : addpar r r' -> addpar (Pre p r) (Pre p r')
| ap_post q l l' : addpar l l' -> addpar (Post q l) (Post q l')
| ap_paren t t' : addpar t t' -> addpar (Paren t) (Paren t')
| ap_wrap t t' : addpar t t' -> addpar t (Paren t').

End Machine.

Arguments TAtom {A O}. Arguments TPre {A O}. Arguments TIn {A O}. Arguments TPost {A O}.
Arguments TL {A O}. Arguments TR {A O}.
Arguments Atom {A O}. Arguments In {A O}. Arguments Pre {A O}. Arguments Post {A O}.
Arguments Paren {A O}.
Arguments EIn {A O}. Arguments EPre {A O}. Arguments EParen {A O}.
Arguments yield {A O}. Arguments reduce {A O}. Arguments unwind {A O}. Arguments run {A O}.
Arguments parse {A O}. Arguments lspine {A O}. Arguments rspine {A O}. Arguments wp {A O}.
Arguments wpb {A O}. Arguments root {A O}. Arguments infix_only {A O}. Arguments wp_local {A O}.
Arguments strip {A O}. Arguments wrap {A O}. Arguments fullpar {A O}. Arguments addpar {A O}.
