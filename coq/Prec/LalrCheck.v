(* C02, tie T — a checker for the LALR tables that goyacc generates from
   parser/parser.go.y, and its soundness.  The tables (gen/LalrTables.v) are regenerated
   by tools/c02.py on every run; gen/LalrInst.v instantiates [check_tables] on them by
   [vm_compute] and applies [check_tables_sound].

   What is checked (for every one of the ~358 states, i.e. in every syntactic context):
   - prec_decls_ok    the %left/%right declarations give every token of PrecSpec.spec_table
                      its associativity and order any two tokens of different rows of the
                      documented table as the documentation does
   - state_ok         in a state containing a completed operator item
                        infixExpr: expr OP expr .      prefixExpr: P expr .
                        ifExpr: expr IF expr .         ifExpr: expr IF expr ELSE expr .
                        assignExpr: ident ASSIGN expr .   ... COMPOUND_ASSIGN expr .
                        jumpStmt: J expr .             jumpIfStmt: jumpStmt IF expr .
                      the action on every operator lookahead token OP2 is
                        Reduce by that rule  if PrecSpec.cred (construct of item) (construct of OP2)
                        Shift to a state whose kernel has OP2 just before the dot  otherwise;
                      the postfix item  assignExpr: expr RIGHT_ASSIGN ident .  is reduced on
                      every operator lookahead; after  expr: unitExpr .  the tokens
                      LBRACKET and LPAREN (index / call) are shifted
   - infix_present    each of the 23 documented infix operators has such a state
   - conflicts_ok     the shift/reduce conflicts are exactly three, on LPAREN, in states
                      whose completed item is a callExpr head (recvAndChain ...) *)
From Coq Require Import List String Bool Arith.
Import ListNotations.
From PanVerif Require Import Prec.PrecSpec Prec.PrecSpecProofs.
Local Open Scope string_scope.
Local Open Scope nat_scope.

Inductive action := Shift (s : nat) | Reduce (r : nat) | Accept | Error.

Record item := mkItem {
  it_lhs : string;
  it_rhs : list string;
  it_dot : nat;
  it_rule : nat            (* rule number printed by goyacc for a completed item, else 0 *)
}.

Record state := mkState {
  st_items : list item;               (* kernel items, as printed by goyacc -v *)
  st_acts : list (string * action);   (* explicit actions per lookahead token *)
  st_default : action                 (* the "." line *)
}.

Record conflict := mkConflict {
  cf_state : nat; cf_shift : nat; cf_rule : nat; cf_tok : string
}.

Record tables := mkTables {
  t_states : list state;                        (* state n is the n-th element *)
  t_prec : list (string * nat * assoc);         (* %left/%right lines: token, line index from 1, assoc *)
  t_conflicts : list conflict
}.

(* ---- reading the tables ---------------------------------------------------------- *)

Definition act (st : state) (tok : string) : action :=
  match assoc_str tok (st_acts st) with Some a => a | None => st_default st end.

Definition completed (it : item) : bool := it_dot it =? List.length (it_rhs it).

Inductive iclass :=
| NotOp                    (* not an operator rule, or not completed *)
| BadOp                    (* an operator rule the documented table does not know *)
| IsOp (c : construct)     (* completed operator item governed by construct c *)
| IsPost.                  (* completed  expr RIGHT_ASSIGN ident . *)

Definition seqb := String.eqb.

Definition classify (it : item) : iclass :=
  if negb (completed it) then NotOp else
  let lhs := it_lhs it in
  match it_rhs it with
  | [x; o; y] =>
      if seqb lhs "infixExpr" then
        match tok_construct o with Some (CInfix i) => IsOp (CInfix i) | _ => BadOp end
      else if seqb lhs "ifExpr" then (if seqb o "IF" then IsOp CIf else BadOp)
      else if seqb lhs "assignExpr" then
        (if seqb o "ASSIGN" || seqb o "COMPOUND_ASSIGN" then IsOp CAssign
         else if seqb o "RIGHT_ASSIGN" then IsPost else BadOp)
      else if seqb lhs "jumpIfStmt" then (if seqb o "IF" then IsOp CJumpIf else BadOp)
      else NotOp
  | [p; y] =>
      if seqb lhs "prefixExpr" then IsOp CUnary
      else if seqb lhs "jumpStmt" then IsOp CJump
      else NotOp
  | [x; o1; y; o2; z] =>
      if seqb lhs "ifExpr" then (if seqb o1 "IF" && seqb o2 "ELSE" then IsOp CElse else BadOp)
      else NotOp
  | _ =>
      if seqb lhs "infixExpr" || seqb lhs "prefixExpr" || seqb lhs "ifExpr" ||
         seqb lhs "assignExpr" || seqb lhs "jumpStmt" || seqb lhs "jumpIfStmt"
      then BadOp else NotOp
  end.

(* tokens that can follow a complete expression and start/continue an operator *)
Definition look_tokens : list string :=
  map infix_tok all_infix ++
  ["IF"; "ELSE"; "RIGHT_ASSIGN"; "ADD_CHAIN"; "MAIN_CHAIN";
   "MULTILINE_ADD_CHAIN"; "MULTILINE_MAIN_CHAIN"].

(* Some true: must reduce; Some false: must shift; None: not constrained
   (`else` after the condition of a jump-if is a syntax error either way) *)
Definition expect (c1 c2 : construct) : option bool :=
  match c1, c2 with
  | CJumpIf, CElse => None
  | _, _ => Some (cred c1 c2)
  end.

(* the symbol just before the dot of some kernel item is [tok] *)
Definition after_tok (st : state) (tok : string) : bool :=
  existsb (fun it =>
    match it_dot it with
    | 0 => false
    | S d => match nth_error (it_rhs it) d with Some s => seqb s tok | None => false end
    end) (st_items st).

Definition decision_ok (T : tables) (st : state) (it : item) (c1 : construct) (tok : string) : bool :=
  match tok_construct tok with
  | None => false
  | Some c2 =>
      match expect c1 c2 with
      | None => true
      | Some true => match act st tok with Reduce r => r =? it_rule it | _ => false end
      | Some false =>
          match act st tok with
          | Shift s => match nth_error (t_states T) s with
                       | Some st' => after_tok st' tok
                       | None => false
                       end
          | _ => false
          end
      end
  end.

Definition is_unit_item (it : item) : bool :=
  completed it && seqb (it_lhs it) "expr" &&
  match it_rhs it with [u] => seqb u "unitExpr" | _ => false end.

Definition is_shift (a : action) : bool := match a with Shift _ => true | _ => false end.

Definition item_ok (T : tables) (st : state) (it : item) : bool :=
  match classify it with
  | NotOp => negb (is_unit_item it) ||
             (is_shift (act st "LBRACKET") && is_shift (act st "LPAREN"))
  | BadOp => false
  | IsOp c1 => forallb (decision_ok T st it c1) look_tokens
  | IsPost => forallb (fun tok => match act st tok with Reduce r => r =? it_rule it | _ => false end)
                      look_tokens
  end.

Definition state_ok (T : tables) (st : state) : bool := forallb (item_ok T st) (st_items st).

Definition assoc_eqb (a b : assoc) : bool :=
  match a, b with LeftA, LeftA | RightA, RightA | NonA, NonA => true | _, _ => false end.

Fixpoint decl (tok : string) (l : list (string * nat * assoc)) : option (nat * assoc) :=
  match l with
  | [] => None
  | (t, lv, a) :: r => if seqb tok t then Some (lv, a) else decl tok r
  end.

Definition decl_assoc_ok (T : tables) (e : string * construct) : bool :=
  match decl (fst e) (t_prec T) with
  | Some (_, a) => assoc_eqb (cassoc (snd e)) a
  | None => false
  end.

Definition decl_order_ok (T : tables) (e1 e2 : string * construct) : bool :=
  match decl (fst e1) (t_prec T), decl (fst e2) (t_prec T) with
  | Some (l1, _), Some (l2, _) =>
      implb (row_rank (crow (snd e1)) <? row_rank (crow (snd e2))) (l1 <? l2)
  | _, _ => false
  end.

Definition prec_decls_ok (T : tables) : bool :=
  forallb (decl_assoc_ok T) spec_table &&
  forallb (fun e1 => forallb (decl_order_ok T e1) spec_table) spec_table.

Definition infix_present (T : tables) : bool :=
  forallb (fun i =>
    existsb (fun st => existsb (fun it =>
      match classify it with
      | IsOp (CInfix j) => seqb (infix_tok i) (infix_tok j) &&
                           match it_rhs it with [_; o; _] => seqb o (infix_tok i) | _ => false end
      | _ => false
      end) (st_items st)) (t_states T)) all_infix.

Definition conflict_ok (T : tables) (c : conflict) : bool :=
  seqb (cf_tok c) "LPAREN" &&
  match nth_error (t_states T) (cf_state c) with
  | Some st =>
      existsb (fun it => completed it && seqb (it_lhs it) "callExpr" && (it_rule it =? cf_rule c) &&
                         match it_rhs it with r :: _ => seqb r "recvAndChain" | [] => false end)
              (st_items st)
  | None => false
  end.

Definition conflicts_ok (T : tables) : bool :=
  (List.length (t_conflicts T) =? 3) && forallb (conflict_ok T) (t_conflicts T).

Definition check_tables (T : tables) : bool :=
  prec_decls_ok T && forallb (state_ok T) (t_states T) && infix_present T && conflicts_ok T.

(* diagnosis for the searcher: the offending (state number, item, lookahead tokens) *)
Fixpoint enumerate_from {B} (n : nat) (l : list B) : list (nat * B) :=
  match l with [] => [] | x :: r => (n, x) :: enumerate_from (S n) r end.

Definition offenders (T : tables) : list (nat * string * list string * list string) :=
  flat_map (fun ns : nat * state =>
    let (n, st) := ns in
    flat_map (fun it =>
      match classify it with
      | IsOp c1 =>
          let bad := filter (fun tok => negb (decision_ok T st it c1 tok)) look_tokens in
          match bad with [] => [] | _ => [(n, it_lhs it, it_rhs it, bad)] end
      | BadOp => [(n, it_lhs it, it_rhs it, [])]
      | IsPost =>
          if item_ok T st it then [] else [(n, it_lhs it, it_rhs it, ["*"])]
      | NotOp => if item_ok T st it then [] else [(n, it_lhs it, it_rhs it, ["LBRACKET/LPAREN"])]
      end) (st_items st)) (enumerate_from 0 (t_states T)).

(* ---- soundness ------------------------------------------------------------------- *)

(* the property of the tables, as a proposition *)
Definition tables_respect_spec (T : tables) : Prop :=
  (* 1. the declarations refine the documented table *)
  (forall tok c, In (tok, c) spec_table ->
     exists lv a, decl tok (t_prec T) = Some (lv, a) /\ a = cassoc c) /\
  (forall tok1 c1 tok2 c2 l1 a1 l2 a2,
     In (tok1, c1) spec_table -> In (tok2, c2) spec_table ->
     decl tok1 (t_prec T) = Some (l1, a1) -> decl tok2 (t_prec T) = Some (l2, a2) ->
     row_rank (crow c1) < row_rank (crow c2) -> l1 < l2) /\
  (* 2. every decision in every state follows the table *)
  (forall n st it c1 tok c2,
     nth_error (t_states T) n = Some st -> In it (st_items st) ->
     classify it = IsOp c1 -> In tok look_tokens -> tok_construct tok = Some c2 ->
     (expect c1 c2 = Some true -> act st tok = Reduce (it_rule it)) /\
     (expect c1 c2 = Some false ->
        exists s st', act st tok = Shift s /\ nth_error (t_states T) s = Some st' /\
                      after_tok st' tok = true)) /\
  (* 3. no operator rule outside the documented table *)
  (forall n st it, nth_error (t_states T) n = Some st -> In it (st_items st) ->
     classify it <> BadOp) /\
  (* 4. right assignment is complete as soon as its identifier is read *)
  (forall n st it tok, nth_error (t_states T) n = Some st -> In it (st_items st) ->
     classify it = IsPost -> In tok look_tokens -> act st tok = Reduce (it_rule it)) /\
  (* 5. all 23 infix operators are there *)
  (forall i, exists n st it, nth_error (t_states T) n = Some st /\ In it (st_items st) /\
     classify it = IsOp (CInfix i)).

Lemma seqb_eq : forall a b, seqb a b = true -> a = b.
Proof. intros a b H. apply String.eqb_eq. exact H. Qed.

Lemma assoc_str_In : forall {B} k (l : list (string * B)) v,
  assoc_str k l = Some v -> In (k, v) l.
Proof.
  intros B k l. induction l as [|[k' v'] l IH]; cbn; intros v H; [discriminate|].
  destruct (String.eqb k k') eqn:E.
  - apply String.eqb_eq in E. inversion H; subst. left. reflexivity.
  - right. auto.
Qed.

Lemma infix_tok_inj : forall i j, infix_tok i = infix_tok j -> i = j.
Proof. destruct i, j; cbn; intros H; try reflexivity; discriminate. Qed.

Theorem check_tables_sound : forall T, check_tables T = true -> tables_respect_spec T.
Proof.
  intros T H. unfold check_tables in H.
  apply andb_true_iff in H. destruct H as [H Hconf].
  apply andb_true_iff in H. destruct H as [H Hpres].
  apply andb_true_iff in H. destruct H as [Hprec Hst].
  rewrite forallb_forall in Hst.
  unfold prec_decls_ok in Hprec.
  apply andb_true_iff in Hprec. destruct Hprec as [Hp1 Hp2].
  rewrite forallb_forall in Hp1, Hp2.
  unfold tables_respect_spec. split; [|split].
  { intros tok c Hin. specialize (Hp1 _ Hin). unfold decl_assoc_ok in Hp1. cbn [fst snd] in Hp1.
    destruct (decl tok (t_prec T)) as [[lv a]|]; [|discriminate Hp1].
    exists lv, a. split; [reflexivity|].
    destruct (cassoc c), a; cbn in Hp1; try reflexivity; discriminate Hp1. }
  { intros tok1 c1 tok2 c2 l1 a1 l2 a2 Hin1 Hin2 Hd1 Hd2 Hlt.
    specialize (Hp2 _ Hin1). rewrite forallb_forall in Hp2. specialize (Hp2 _ Hin2).
    unfold decl_order_ok in Hp2. cbn [fst snd] in Hp2. rewrite Hd1, Hd2 in Hp2.
    apply Nat.ltb_lt in Hlt. rewrite Hlt in Hp2. cbn in Hp2. apply Nat.ltb_lt. exact Hp2. }
  assert (Hitem : forall n st it, nth_error (t_states T) n = Some st -> In it (st_items st) ->
            item_ok T st it = true).
  { intros n st it Hn Hin. apply nth_error_In in Hn. specialize (Hst _ Hn).
    unfold state_ok in Hst. rewrite forallb_forall in Hst. auto. }
  split; [|split; [|split]].
  - intros n st it c1 tok c2 Hn Hin Hcl Htok Hc2.
    specialize (Hitem _ _ _ Hn Hin). unfold item_ok in Hitem. rewrite Hcl in Hitem.
    rewrite forallb_forall in Hitem. specialize (Hitem _ Htok).
    unfold decision_ok in Hitem. rewrite Hc2 in Hitem.
    split; intros He; rewrite He in Hitem.
    + destruct (act st tok); try discriminate. apply Nat.eqb_eq in Hitem. subst. reflexivity.
    + destruct (act st tok) as [s| | |]; try discriminate.
      destruct (nth_error (t_states T) s) as [st'|] eqn:Es; [|discriminate].
      exists s, st'. auto.
  - intros n st it Hn Hin Hbad. specialize (Hitem _ _ _ Hn Hin).
    unfold item_ok in Hitem. rewrite Hbad in Hitem. discriminate.
  - intros n st it tok Hn Hin Hcl Htok. specialize (Hitem _ _ _ Hn Hin).
    unfold item_ok in Hitem. rewrite Hcl in Hitem. rewrite forallb_forall in Hitem.
    specialize (Hitem _ Htok). destruct (act st tok); try discriminate.
    apply Nat.eqb_eq in Hitem. subst. reflexivity.
  - intros i. unfold infix_present in Hpres. rewrite forallb_forall in Hpres.
    specialize (Hpres i (all_infix_complete i)). apply existsb_exists in Hpres.
    destruct Hpres as [st [Hst' Hex]]. apply existsb_exists in Hex. destruct Hex as [it [Hit E]].
    apply In_nth_error in Hst'. destruct Hst' as [n Hn].
    exists n, st, it. repeat split; auto.
    destruct (classify it) as [| |c|]; try discriminate. destruct c; try discriminate.
    apply andb_true_iff in E. destruct E as [E _]. apply seqb_eq in E.
    apply infix_tok_inj in E. subst. reflexivity.
Qed.
