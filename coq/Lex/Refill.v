(* C16 — the buffer state machine of third_party/simplexer/lexer.go.

   Modelled: Lexer{reader, buf, loaded}, readBufIfNeed, skipWhitespace,
   consumeBuffer, Peek, Scan, and the way parser.Lexer.Lex drives Scan (one
   token per call, the token table may change after a token: HEAD_STR_PIECE /
   TAIL_STR_PIECE switch the embedded-string table on and off).

   The reader is an arbitrary io.Reader over a finite input: a call Read(p)
   hands out between 1 and len(p) bytes while input is left (how many is
   dictated by a chunk schedule, one entry per call) and 0/EOF afterwards.

   Token types are abstract: a matcher sees the buffer only and answers the
   length of the match at its head (TokenType.FindToken). Peek tries the token
   types in order and returns the first that matches.

   [readBufIfNeed]      the logic as repaired (patches/16-lexer-load-whole-input.diff):
                        on first use, io.ReadAll the reader into the buffer.
   [readBufIfNeed_old]  the original logic: when fewer than 1024 bytes are
                        buffered, ONE Read of 2048 bytes whose byte count is
                        ignored; the zero-filled remainder is trimmed at the
                        first NUL.

   Definitions only; proofs are in RefillProofs.v. *)
From Coq Require Import List NArith Arith Bool.
Import ListNotations.

Definition byte := N.

(* ------------------------------------------------------------------ *)
(* The reader.                                                          *)

Record reader := mkReader { rd_rest : list byte; rd_sched : list nat }.

(* Every scheduled Read hands out at least one byte (io.Reader: 0 < n <= len(p)
   unless at end of input). *)
Definition well_formed_schedule (s : list nat) : Prop := Forall (fun k => 1 <= k) s.

(* One call Read(p), len(p) = req: the head of the schedule says how many bytes
   the reader is willing to hand out in this call; never more than req nor than
   what is left. An exhausted schedule hands out all that is requested. *)
Definition rd_read (req : nat) (r : reader) : list byte * reader :=
  let want := match rd_sched r with [] => req | k :: _ => Nat.min k req end in
  (firstn want (rd_rest r),
   mkReader (skipn want (rd_rest r)) (tl (rd_sched r))).

(* io.ReadAll: Read until EOF. The size it requests in each call depends on the
   capacity of its growing slice (runtime's append policy); [reqsz] maps the
   number of bytes gathered so far to the next request (always >= 1). *)
Fixpoint read_all (reqsz : nat -> nat) (fuel : nat) (acc : list byte) (r : reader)
  : list byte * reader :=
  match fuel with
  | 0 => (acc, r)
  | S f =>
    match rd_rest r with
    | [] => (acc, r)                                   (* Read: 0, io.EOF *)
    | _ :: _ => let '(bs, r') := rd_read (reqsz (length acc)) r in
                read_all reqsz f (acc ++ bs) r'
    end
  end.

(* ------------------------------------------------------------------ *)
(* The lexer state.                                                      *)

Record lexer := mkLexer { lx_buf : list byte; lx_loaded : bool; lx_rd : reader }.

Definition lx_init (input : list byte) (schedule : list nat) : lexer :=
  mkLexer [] false (mkReader input schedule).

(* bytes the lexer can still see: buffered + not yet read *)
Definition lx_avail (l : lexer) : nat := length (lx_buf l) + length (rd_rest (lx_rd l)).

(* repaired readBufIfNeed *)
Definition readBufIfNeed (reqsz : nat -> nat) (l : lexer) : lexer :=
  if lx_loaded l then l
  else let '(bs, r') := read_all reqsz (S (length (rd_rest (lx_rd l)))) [] (lx_rd l) in
       mkLexer (lx_buf l ++ bs) true r'.

(* original readBufIfNeed *)
Fixpoint trim_nul (s : list byte) : list byte :=
  match s with
  | [] => []
  | c :: r => if N.eqb c 0 then [] else c :: trim_nul r
  end.

Definition readBufIfNeed_old (l : lexer) : lexer :=
  if length (lx_buf l) <? 1024 then
    let '(bs, r') := rd_read 2048 (lx_rd l) in
    mkLexer (lx_buf l ++ trim_nul bs) (lx_loaded l) r'
  else l.

(* ------------------------------------------------------------------ *)
(* Token types, Peek, Scan.                                              *)

(* FindToken on the buffer: length of the match at its head. *)
Definition matcher := list byte -> option nat.

Section Lexer.
  Variable tok : Type.          (* token ids *)
  Variable mode : Type.         (* which token table is installed *)

  Record lexspec := mkSpec {
    ls_ws : matcher;                                (* Lexer.Whitespace *)
    ls_types : mode -> list (tok * matcher);        (* Lexer.TokenTypes, in order *)
    ls_next : mode -> tok -> mode                   (* table after a token was returned *)
  }.

  Inductive scanres :=
  | STok (t : tok) (lit : list byte)     (* a token and its literal text *)
  | SErr                                  (* UnknownTokenError *)
  | SEof.                                 (* nil, nil *)

  Variable L : lexspec.
  Variable refill : lexer -> lexer.       (* readBufIfNeed, either version *)

  (* consumeBuffer: l.buf = l.buf[len(t.Literal):] *)
  Definition consume (n : nat) (l : lexer) : lexer :=
    mkLexer (skipn n (lx_buf l)) (lx_loaded l) (lx_rd l).

  (* skipWhitespace: for { readBufIfNeed; if ws matches {consume} else {break} }.
     A whitespace type that matches the empty string would make the Go loop spin
     for ever; only non-empty matches continue the loop here
     (PatternTokenType{" ", "\t"} has no empty pattern). *)
  Fixpoint skip_ws_loop (fuel : nat) (l : lexer) : lexer :=
    let l := refill l in
    match fuel with
    | 0 => l
    | S f => match ls_ws L (lx_buf l) with
             | Some (S k) => skip_ws_loop f (consume (S k) l)
             | _ => l
             end
    end.
  Definition skipWhitespace (l : lexer) : lexer := skip_ws_loop (S (lx_avail l)) l.

  (* Peek: for each token type { skipWhitespace; readBufIfNeed; FindToken } *)
  Fixpoint peek_types (ts : list (tok * matcher)) (l : lexer) : lexer * option (tok * nat) :=
    match ts with
    | [] => (l, None)
    | (t, m) :: ts' =>
      let l := refill (skipWhitespace l) in
      match m (lx_buf l) with
      | Some n => (l, Some (t, n))
      | None => peek_types ts' l
      end
    end.

  (* Scan = Peek + consumeBuffer *)
  Definition scan (md : mode) (l : lexer) : lexer * scanres :=
    let '(l, r) := peek_types (ls_types L md) l in
    match r with
    | Some (t, n) => (consume n l, STok t (firstn n (lx_buf l)))
    | None => (l, match lx_buf l with [] => SEof | _ :: _ => SErr end)
    end.

  (* the first n results handed to the parser; the stream ends at an error or EOF *)
  Fixpoint scan_n (n : nat) (md : mode) (l : lexer) : list scanres :=
    match n with
    | 0 => []
    | S k => let '(l', r) := scan md l in
             match r with
             | STok t _ => r :: scan_n k (ls_next L md t) l'
             | _ => [r]
             end
    end.

  (* ---- the same algorithm on a plain buffer holding the whole input ---- *)
  Fixpoint skip_ws_b (fuel : nat) (b : list byte) : list byte :=
    match fuel with
    | 0 => b
    | S f => match ls_ws L b with
             | Some (S k) => skip_ws_b f (skipn (S k) b)
             | _ => b
             end
    end.
  Definition skipWhitespace_b (b : list byte) := skip_ws_b (S (length b + 0)) b.

  Fixpoint peek_b (ts : list (tok * matcher)) (b : list byte) : list byte * option (tok * nat) :=
    match ts with
    | [] => (b, None)
    | (t, m) :: ts' =>
      let b := skipWhitespace_b b in
      match m b with
      | Some n => (b, Some (t, n))
      | None => peek_b ts' b
      end
    end.

  Definition scan_b (md : mode) (b : list byte) : list byte * scanres :=
    let '(b, r) := peek_b (ls_types L md) b in
    match r with
    | Some (t, n) => (skipn n b, STok t (firstn n b))
    | None => (b, match b with [] => SEof | _ :: _ => SErr end)
    end.

  Fixpoint whole_n (n : nat) (md : mode) (b : list byte) : list scanres :=
    match n with
    | 0 => []
    | S k => let '(b', r) := scan_b md b in
             match r with
             | STok t _ => r :: whole_n k (ls_next L md t) b'
             | _ => [r]
             end
    end.

  (* ---- a still simpler reading: skip blanks once, first type that matches ---- *)
  Fixpoint first_match (ts : list (tok * matcher)) (b : list byte) : option (tok * nat) :=
    match ts with
    | [] => None
    | (t, m) :: ts' => match m b with Some n => Some (t, n) | None => first_match ts' b end
    end.

  Fixpoint spec_n (n : nat) (md : mode) (b : list byte) : list scanres :=
    match n with
    | 0 => []
    | S k =>
      match ls_types L md with
      | [] => [match b with [] => SEof | _ :: _ => SErr end]
      | _ :: _ =>
        let b := skipWhitespace_b b in
        match first_match (ls_types L md) b with
        | Some (t, m) => STok t (firstn m b) :: spec_n k (ls_next L md t) (skipn m b)
        | None => [match b with [] => SEof | _ :: _ => SErr end]
        end
      end
    end.
End Lexer.

Arguments STok {tok}.
Arguments SErr {tok}.
Arguments SEof {tok}.
Arguments mkSpec {tok mode}.
Arguments ls_ws {tok mode}.
Arguments ls_types {tok mode}.
Arguments ls_next {tok mode}.

(* The token stream (first n results) of the repaired lexer reading [input]
   through a reader that follows [schedule]; of the original lexer; and of the
   algorithm applied to the whole input at once. *)
Definition tokens_buffered_spec {tok mode} (reqsz : nat -> nat) (L : lexspec tok mode)
           (schedule : list nat) (input : list byte) (md : mode) (n : nat) :=
  scan_n tok mode L (readBufIfNeed reqsz) n md (lx_init input schedule).

Definition tokens_buffered_old_spec {tok mode} (L : lexspec tok mode)
           (schedule : list nat) (input : list byte) (md : mode) (n : nat) :=
  scan_n tok mode L readBufIfNeed_old n md (lx_init input schedule).

Definition tokens_whole_spec {tok mode} (L : lexspec tok mode) (input : list byte) (md : mode) (n : nat) :=
  whole_n tok mode L n md input.

(* ---- the single abstract matcher form:  m : list byte -> option (nat * tok) ---- *)
(* m is the whole "skip blanks, first token type that matches" step as a
   function of the buffer: a Lexer with the one token type m and no separate
   whitespace type (Whitespace == nil); the token id is decided by m. *)
Section OneMatcher.
  Variable tok : Type.
  Variable m : list byte -> option (nat * tok).

  Inductive mres := MTok (t : tok) (lit : list byte) | MErr | MEof.

  Fixpoint m_stream (refill : lexer -> lexer) (n : nat) (l : lexer) : list mres :=
    match n with
    | 0 => []
    | S k =>
      (* Peek with one type and Whitespace == nil: readBufIfNeed, FindToken *)
      let l := refill l in
      match m (lx_buf l) with
      | Some (len, t) => MTok t (firstn len (lx_buf l)) :: m_stream refill k (consume len l)
      | None => [match lx_buf l with [] => MEof | _ :: _ => MErr end]
      end
    end.

  Fixpoint m_whole (n : nat) (b : list byte) : list mres :=
    match n with
    | 0 => []
    | S k => match m b with
             | Some (len, t) => MTok t (firstn len b) :: m_whole k (skipn len b)
             | None => [match b with [] => MEof | _ :: _ => MErr end]
             end
    end.
End OneMatcher.

Arguments MTok {tok}.
Arguments MErr {tok}.
Arguments MEof {tok}.

(* ReadAll's request sizes as the model runs it (any positive function gives the same stream) *)
Definition reqsz_default (gathered : nat) : nat := 512.

Definition tokens_buffered {tok} (m : list byte -> option (nat * tok)) (schedule : list nat)
           (input : list byte) (n : nat) : list (mres tok) :=
  m_stream tok m (readBufIfNeed reqsz_default) n (lx_init input schedule).

Definition tokens_buffered_old {tok} (m : list byte -> option (nat * tok)) (schedule : list nat)
           (input : list byte) (n : nat) : list (mres tok) :=
  m_stream tok m readBufIfNeed_old n (lx_init input schedule).

Definition tokens_whole {tok} (m : list byte -> option (nat * tok)) (input : list byte) (n : nat)
  : list (mres tok) :=
  m_whole tok m n input.
