(* C16 - hand-written matchers for the layout tokens and the unbounded-length
   tokens of parser/parser.go.y (tokenTypes()). They mirror the pattern text
   below, written here with Q for the double quote character, BQ for the
   backquote and STAR for the repetition star (a Coq comment would otherwise
   end or open a string):

     comment               #[^\n\r]STAR
     retChar               (\r|\n|\r\n)
     RET                   (([ \t]STAR(comment)?retChar)+|comment)
     keepChainRet          ([ \t]STAR(comment)?retChar)+[ \t]STAR\|
     MULTILINE_ADD_CHAIN   keepChainRet[&~=]
     MULTILINE_MAIN_CHAIN  keepChainRet[\.@$]
     BACKQUOTE_STR         BQ(\\BQ|[^BQ])STAR BQ
     HEAD_STR_PIECE        Q(\\\Q|[^\Q\n\r#])STAR#\{
     DOUBLEQUOTE_STR       Q(\\\Q|[^\Q\n\r])STAR Q
     IDENT                 [a-zA-Z][a-zA-Z0-9_]STAR[!?]?
     PRIVATE_IDENT         _+(IDENT)?

   anchored at the head of the buffer, with Go regexp's leftmost-first
   (backtracking order) choice of the match. A matcher answers the byte length
   of the match. Each run of ./check C16 compares every matcher with Go's regexp
   compiled from the pattern text the running parser actually installs
   (harness dumpregex), so a change of a pattern shows up as a mismatch.

   Definitions only; proofs are in LayoutProofs.v. *)
From Coq Require Import List NArith Arith Bool.
Import ListNotations.
From PanVerif Require Import Lex.Refill.
Local Open Scope N_scope.

Definition is_blank (c : byte) : bool := (c =? 32) || (c =? 9).          (* space, tab *)
Definition is_nl (c : byte) : bool := (c =? 10) || (c =? 13).            (* LF, CR *)
Definition is_hash (c : byte) : bool := c =? 35.                          (* # *)
Definition is_alpha (c : byte) : bool :=
  ((65 <=? c) && (c <=? 90)) || ((97 <=? c) && (c <=? 122)).
Definition is_digit (c : byte) : bool := (48 <=? c) && (c <=? 57).
Definition is_idchar (c : byte) : bool := is_alpha c || is_digit c || (c =? 95).
Definition is_bangq (c : byte) : bool := (c =? 33) || (c =? 63).          (* ! ? *)
Definition is_add_chain (c : byte) : bool := (c =? 38) || (c =? 126) || (c =? 61).   (* & ~ = *)
Definition is_main_chain (c : byte) : bool := (c =? 46) || (c =? 64) || (c =? 36).   (* . @ $ *)

Local Close Scope N_scope.

(* length of the longest prefix whose bytes satisfy p *)
Fixpoint span (p : byte -> bool) (b : list byte) : nat :=
  match b with
  | c :: r => if p c then S (span p r) else 0
  | [] => 0
  end.

Definition odef (o : option nat) : nat := match o with Some k => k | None => 0 end.

(* ---- layout lines: one or more of (blanks, optional comment, line end) ---- *)
(* [lines ph b]: total length of the longest run of complete layout lines at the
   head of b (None when not even one line completes). ph says whether we are in
   the blanks or in the comment of the current line. CR LF is taken as CR
   followed by an empty line LF, as the regexp does; the length is the same. *)
Inductive phase := PBlank | PComment.

Fixpoint lines (ph : phase) (b : list byte) : option nat :=
  match b with
  | [] => None
  | c :: r =>
    match ph with
    | PBlank =>
      if is_blank c then option_map S (lines PBlank r)
      else if is_hash c then option_map S (lines PComment r)
      else if is_nl c then Some (S (odef (lines PBlank r)))
      else None
    | PComment =>
      if is_nl c then Some (S (odef (lines PBlank r)))
      else option_map S (lines PComment r)
    end
  end.

Definition not_nl (c : byte) : bool := negb (is_nl c).

(* RET *)
Definition m_ret : matcher := fun b =>
  match lines PBlank b with
  | Some n => Some n
  | None => match b with
            | c :: r => if is_hash c then Some (S (span not_nl r)) else None
            | [] => None
            end
  end.

(* MULTILINE_ADD_CHAIN / MULTILINE_MAIN_CHAIN: layout lines, blanks, a bar, one chain character *)
Definition m_chain (cls : byte -> bool) : matcher := fun b =>
  match lines PBlank b with
  | None => None
  | Some n =>
    let r := skipn n b in
    let k := span is_blank r in
    match skipn k r with
    | bar :: c :: _ => if N.eqb bar 124 && cls c then Some (n + k + 2) else None
    | _ => None
    end
  end.

(* DOUBLEQUOTE_STR: [dq_body] works after the opening quote and answers the
   length through the closing quote. At a backslash-quote the regexp first tries
   to go on behind it, and falls back to (backslash is an ordinary character,
   the quote closes) only when that finds no closing quote. *)
Fixpoint dq_body (b : list byte) : option nat :=
  match b with
  | [] => None
  | c :: r =>
    if N.eqb c 34 then Some 1
    else if is_nl c then None
    else if N.eqb c 92 then
      match r with
      | d :: r' => if N.eqb d 34
                   then match dq_body r' with Some k => Some (S (S k)) | None => Some 2 end
                   else option_map S (dq_body r)
      | [] => None
      end
    else option_map S (dq_body r)
  end.
Definition m_dq : matcher := fun b =>
  match b with c :: r => if N.eqb c 34 then option_map S (dq_body r) else None | [] => None end.

(* BACKQUOTE_STR: as above with the backquote and no exclusion of line ends *)
Fixpoint bq_body (b : list byte) : option nat :=
  match b with
  | [] => None
  | c :: r =>
    if N.eqb c 96 then Some 1
    else if N.eqb c 92 then
      match r with
      | d :: r' => if N.eqb d 96
                   then match bq_body r' with Some k => Some (S (S k)) | None => Some 2 end
                   else option_map S (bq_body r)
      | [] => None
      end
    else option_map S (bq_body r)
  end.
Definition m_bq : matcher := fun b =>
  match b with c :: r => if N.eqb c 96 then option_map S (bq_body r) else None | [] => None end.

(* HEAD_STR_PIECE: a quote, string characters, then #{ ; a # inside the piece must open the embedding *)
Fixpoint head_body (b : list byte) : option nat :=
  match b with
  | [] => None
  | c :: r =>
    if N.eqb c 34 then None
    else if is_nl c then None
    else if is_hash c then
      match r with d :: _ => if N.eqb d 123 then Some 2 else None | [] => None end
    else if N.eqb c 92 then
      match r with
      | d :: r' => if N.eqb d 34 then option_map (fun k => S (S k)) (head_body r')
                   else option_map S (head_body r)
      | [] => None
      end
    else option_map S (head_body r)
  end.
Definition m_head : matcher := fun b =>
  match b with c :: r => if N.eqb c 34 then option_map S (head_body r) else None | [] => None end.

(* IDENT *)
Definition m_ident : matcher := fun b =>
  match b with
  | c :: r =>
    if is_alpha c then
      let k := span is_idchar r in
      Some (S (k + match skipn k r with d :: _ => if is_bangq d then 1 else 0 | [] => 0 end))
    else None
  | [] => None
  end.

(* PRIVATE_IDENT *)
Definition m_private : matcher := fun b =>
  let k := span (fun c => N.eqb c 95) b in
  match k with 0 => None | S _ => Some (k + odef (m_ident (skipn k b))) end.

(* ---- the reduced token table used to tie Refill.v to simplexer.Lexer ---- *)
Inductive ltok := TBackquote | THead | TDq | TMlAdd | TMlMain | TRet | TIdent | TPrivate.

Definition m_ws : matcher := fun b =>
  match b with c :: _ => if is_blank c then Some 1 else None | [] => None end.

(* same relative order as in tokenTypes() *)
Definition layout_types : list (ltok * matcher) :=
  [ (TBackquote, m_bq); (THead, m_head); (TDq, m_dq);
    (TMlAdd, m_chain is_add_chain); (TMlMain, m_chain is_main_chain); (TRet, m_ret);
    (TIdent, m_ident); (TPrivate, m_private) ].

Definition layout_spec : lexspec ltok unit :=
  mkSpec m_ws (fun _ => layout_types) (fun md _ => md).

(* the three layout tokens alone, in table order *)
Definition layout_token (b : list byte) : option (ltok * nat) :=
  first_match ltok [ (TMlAdd, m_chain is_add_chain); (TMlMain, m_chain is_main_chain); (TRet, m_ret) ] b.

(* the reduced table as ONE matcher (first type that matches), the form used by
   tokens_buffered / tokens_whole of Refill.v *)
Definition layout_m (b : list byte) : option (nat * ltok) :=
  match first_match ltok layout_types b with Some (t, n) => Some (n, t) | None => None end.

Definition matcher_of (t : ltok) : matcher :=
  match t with
  | TBackquote => m_bq | THead => m_head | TDq => m_dq
  | TMlAdd => m_chain is_add_chain | TMlMain => m_chain is_main_chain | TRet => m_ret
  | TIdent => m_ident | TPrivate => m_private
  end.

(* ------------------------------------------------------------------ *)
(* Shapes of text the theorems speak about.                               *)

Definition blanks (l : list byte) : Prop := Forall (fun c => is_blank c = true) l.
Definition no_nl (l : list byte) : Prop := Forall (fun c => is_nl c = false) l.

(* a comment (# and the rest of the line) or nothing *)
Definition comment_text (l : list byte) : Prop :=
  l = [] \/ exists body, l = 35%N :: body /\ no_nl body.
(* LF, CR or CR LF *)
Definition newline_text (l : list byte) : Prop :=
  l = [10%N] \/ l = [13%N] \/ l = [13%N; 10%N].

(* one line of padding: blanks, optional comment, line end *)
Inductive layout_line : list byte -> Prop :=
| LL bl cm nl : blanks bl -> comment_text cm -> newline_text nl -> layout_line (bl ++ cm ++ nl).

(* a line break with any number of blank lines / comment lines around it *)
Inductive padding : list byte -> Prop :=
| pad_one l : layout_line l -> padding l
| pad_more l p : layout_line l -> padding p -> padding (l ++ p).

(* what follows the padding (after the indentation) starts an ordinary token, or is the end of input *)
Definition token_start (rest : list byte) : Prop :=
  match rest with
  | [] => True
  | c :: _ => is_blank c = false /\ is_nl c = false /\ is_hash c = false
  end.

(* ... and is not the bar + chain character of a multiline chain *)
Definition no_chain (rest : list byte) : Prop :=
  match rest with
  | bar :: c :: _ => bar = 124%N -> is_add_chain c = false /\ is_main_chain c = false
  | _ => True
  end.

(* literals of the unbounded tokens *)
Definition dq_lit (body : list byte) : list byte := 34%N :: body ++ [34%N].
Definition bq_lit (body : list byte) : list byte := 96%N :: body ++ [96%N].
Definition comment_lit (body : list byte) : list byte := 35%N :: body.
(* body of a double-quoted literal: no quote, no line end, no #, not ending in a backslash *)
Definition dq_plain (body : list byte) : Prop :=
  Forall (fun c => c <> 34%N /\ is_nl c = false /\ is_hash c = false) body /\ last body 0%N <> 92%N.
(* body of a raw string: no backquote (line ends allowed), not ending in a backslash *)
Definition bq_plain (body : list byte) : Prop :=
  Forall (fun c => c <> 96%N) body /\ last body 0%N <> 92%N.
(* what may follow an identifier without ! or ? *)
Definition ident_end (rest : list byte) : Prop :=
  match rest with [] => True | c :: _ => is_idchar c = false /\ is_bangq c = false end.

(* ------------------------------------------------------------------ *)
(* Correspondence cases (evaluated by vm_compute in coq/gen/cases_C16_*.v). *)

(* All numbers in the generated case files are binary (N): a unary nat literal of
   a few thousand costs seconds to elaborate. *)

Local Open Scope N_scope.

(* run-length encoded text: each piece is a unit repeated count times *)
Definition rle := list (N * list byte).
Definition expand (x : rle) : list byte :=
  flat_map (fun p => concat (repeat (snd p) (N.to_nat (fst p)))) x.

(* schedules: a pattern repeated *)
Definition cycle (pat : list N) (times : N) : list nat :=
  concat (repeat (map N.to_nat pat) (N.to_nat times)).

(* (a) matcher vs Go regexp: index, text, what Go answered for the eight patterns
   in the order of [all_toks] (match length, None = no match) *)
Definition all_toks := [TBackquote; THead; TDq; TMlAdd; TMlMain; TRet; TIdent; TPrivate].
Definition mcase := (N * rle * list (option N))%type.

Definition onat_eqb (x : option nat) (y : option N) : bool :=
  match x, y with
  | Some a, Some b => N.eqb (N.of_nat a) b
  | None, None => true
  | _, _ => false
  end.

Definition oN (x : option nat) : option N := option_map N.of_nat x.

Fixpoint cmp_all (i : N) (b : list byte) (k : N) (ts : list ltok) (go : list (option N))
  : list (N * N * option N) :=
  match ts, go with
  | t :: ts', g :: go' =>
    let mine := matcher_of t b in
    (if onat_eqb mine g then [] else [(i, k, oN mine)]) ++ cmp_all i b (N.succ k) ts' go'
  | _, _ => []
  end.

(* (case index, pattern index in all_toks, the model's answer) *)
Definition mismatches_m (cs : list mcase) : list (N * N * option N) :=
  flat_map (fun c => match c with (i, x, go) => cmp_all i (expand x) 0 all_toks go end) cs.

(* (b) the refill machine with the reduced table vs simplexer.Lexer fed through a
   scripted reader: index, text, schedule pattern, repetitions, the stream Go produced
   as (pattern index, literal length) and how it ended (0 = EOF, 1 = error). *)
Definition lcase := (N * rle * list N * N * list (N * N) * N)%type.

Definition tok_index (t : ltok) : N :=
  match t with
  | TBackquote => 0 | THead => 1 | TDq => 2 | TMlAdd => 3 | TMlMain => 4
  | TRet => 5 | TIdent => 6 | TPrivate => 7
  end.

(* the stream as (pattern index, literal length) pairs; ending 0 = EOF, 1 = error, 2 = cut off *)
Fixpoint flatten_stream (s : list (scanres ltok)) : list (N * N) * N :=
  match s with
  | [] => ([], 2)
  | STok t lit :: s' => let '(l, e) := flatten_stream s' in ((tok_index t, N.of_nat (length lit)) :: l, e)
  | SEof :: _ => ([], 0)
  | SErr :: _ => ([], 1)
  end.

Fixpoint pairs_eqb (x y : list (N * N)) : bool :=
  match x, y with
  | [], [] => true
  | (a, b) :: x', (c, d) :: y' => N.eqb a c && N.eqb b d && pairs_eqb x' y'
  | _, _ => false
  end.

Definition mismatches_lex (cs : list lcase) : list (N * (list (N * N) * N)) :=
  flat_map (fun c => match c with (i, x, pat, times, go, goend) =>
     let input := expand x in
     let r := flatten_stream
                (tokens_buffered_spec reqsz_default layout_spec (cycle pat times) input tt (S (S (length go)))) in
     if pairs_eqb (fst r) go && N.eqb (snd r) goend then [] else [(i, r)] end) cs.

(* the same against the ORIGINAL refill logic (diagnosis only) *)
Definition mismatches_lex_old (cs : list lcase) : list (N * (list (N * N) * N)) :=
  flat_map (fun c => match c with (i, x, pat, times, go, goend) =>
     let input := expand x in
     let r := flatten_stream
                (tokens_buffered_old_spec layout_spec (cycle pat times) input tt (S (S (length go)))) in
     if pairs_eqb (fst r) go && N.eqb (snd r) goend then [] else [(i, r)] end) cs.
