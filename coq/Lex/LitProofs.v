(* C17 — theorems about the literal and name models Lex/Literals.v and Lex/Idents.v.
   For ALL spellings: integer forms have exactly the positional value of their digits
   or are refused; exponent-int forms that denote an integer likewise; float forms
   are the round-to-nearest-even binary64 of the written decimal (Flocq), refused on
   overflow; string bodies decode exactly by Go's escape table, undefined escapes are
   refused; names cut into one token.  Two recorded classes (open findings) keep a
   _refuted / _partial pair: non-integer exponent forms and `_` followed by a
   non-letter. *)
From Coq Require Import ZArith List Bool Lia Reals.
From Flocq Require Import Core.Zaux Core.Raux Core.Defs Core.Float_prop Core.Generic_fmt Core.Round_NE Core.FLT
     IEEE754.BinarySingleNaN IEEE754.Binary IEEE754.Bits.
From PanVerif Require Import Base.Int64 Lex.Literals Lex.Idents.
Import ListNotations.
Local Open Scope list_scope.
Local Open Scope Z_scope.

(* ---------- the mathematical value of a digit string ---------- *)
Fixpoint pos_value (base : Z) (ds : list Z) : Z :=
  match ds with
  | [] => 0
  | d :: r => d * base ^ Z.of_nat (length r) + pos_value base r
  end.

Lemma horner_acc base ds : forall acc,
  fold_left (fun a d => a * base + d) ds acc = acc * base ^ Z.of_nat (length ds) + pos_value base ds.
Proof.
  induction ds as [|d r IH]; intros acc.
  - cbn. ring.
  - cbn [fold_left pos_value length]. rewrite IH.
    rewrite Nat2Z.inj_succ, Z.pow_succ_r by lia. ring.
Qed.

Lemma horner_pos_value base ds : horner base ds = pos_value base ds.
Proof. unfold horner. rewrite horner_acc. ring. Qed.

Lemma pos_value_app base a b :
  pos_value base (a ++ b) = pos_value base a * base ^ Z.of_nat (length b) + pos_value base b.
Proof.
  induction a as [|d r IH]; cbn [app pos_value].
  - ring.
  - rewrite IH, app_length, Nat2Z.inj_add, Z.pow_add_r by lia. ring.
Qed.

Lemma pos_value_nonneg base ds : 0 <= base -> Forall (fun d => 0 <= d) ds -> 0 <= pos_value base ds.
Proof.
  intros Hb H. induction H as [|d r Hd _ IH]; cbn [pos_value]; [lia|].
  assert (0 <= base ^ Z.of_nat (length r)) by (apply Z.pow_nonneg; lia). nia.
Qed.

(* ---------- characters ---------- *)
Lemma dval_nonneg c : 0 <= dval c.
Proof.
  unfold dval, between.
  destruct (Z.leb_spec 48 c), (Z.leb_spec c 57); cbn [andb]; try lia;
  destruct (Z.leb_spec 97 c), (Z.leb_spec c 102); cbn [andb]; try lia;
  destruct (Z.leb_spec 65 c), (Z.leb_spec c 70); cbn [andb]; lia.
Qed.

Lemma is_digit_not_us base c : base <= 16 -> is_digit base c = true -> is_us c = false.
Proof.
  unfold is_digit, is_us. intros Hb H. apply Z.ltb_lt in H.
  destruct (Z.eqb_spec c 95) as [->|]; [|reflexivity]. cbn in H. lia.
Qed.

Lemma digit_char_range base c : base <= 16 -> is_digit base c = true ->
  (48 <= c <= 57 \/ 97 <= c <= 102 \/ 65 <= c <= 70).
Proof.
  unfold is_digit, dval, between. intros Hb H. apply Z.ltb_lt in H.
  destruct (Z.leb_spec 48 c), (Z.leb_spec c 57); cbn [andb] in H; try lia;
  destruct (Z.leb_spec 97 c), (Z.leb_spec c 102); cbn [andb] in H; try lia;
  destruct (Z.leb_spec 65 c), (Z.leb_spec c 70); cbn [andb] in H; lia.
Qed.

Lemma dec_digit_range c : is_digit 10 c = true -> 48 <= c <= 57.
Proof.
  unfold is_digit, dval, between. intros H. apply Z.ltb_lt in H.
  destruct (Z.leb_spec 48 c), (Z.leb_spec c 57); cbn [andb] in H; try lia;
  destruct (Z.leb_spec 97 c), (Z.leb_spec c 102); cbn [andb] in H; try lia;
  destruct (Z.leb_spec 65 c), (Z.leb_spec c 70); cbn [andb] in H; lia.
Qed.

Lemma oct_digit_range c : is_digit 8 c = true -> 48 <= c <= 55.
Proof.
  unfold is_digit, dval, between. intros H. apply Z.ltb_lt in H.
  destruct (Z.leb_spec 48 c), (Z.leb_spec c 57); cbn [andb] in H; try lia;
  destruct (Z.leb_spec 97 c), (Z.leb_spec c 102); cbn [andb] in H; try lia;
  destruct (Z.leb_spec 65 c), (Z.leb_spec c 70); cbn [andb] in H; lia.
Qed.

(* the digits of a well-formed digit string are digits of the base *)
Lemma digits_valid base l : base <= 16 ->
  forallb (fun c => is_digit base c || is_us c) l = true ->
  Forall (fun d => 0 <= d < base) (digits_of l).
Proof.
  intros Hb. unfold digits_of, strip_us. induction l as [|c r IH]; cbn [forallb filter map]; intros H.
  - constructor.
  - apply andb_true_iff in H as [Hc Hr]. specialize (IH Hr).
    destruct (is_us c) eqn:U; cbn [negb map]; [exact IH|].
    rewrite orb_false_r in Hc. constructor; [|exact IH].
    split; [apply dval_nonneg | now apply Z.ltb_lt].
Qed.

Lemma sep_ok_chars base l : sep_ok base l = true ->
  forallb (fun c => is_digit base c || is_us c) l = true.
Proof. unfold sep_ok. destruct l; [discriminate|]. intros H. now apply andb_true_iff in H as [_ H]. Qed.

Theorem int_digits_valid base l : base <= 16 -> sep_ok base l = true ->
  Forall (fun d => 0 <= d < base) (digits_of l).
Proof. intros Hb H. apply digits_valid; [assumption | now apply sep_ok_chars]. Qed.

(* ---------- INT / HEX_INT / OCT_INT / BIN_INT ---------- *)
Lemma int_result_in v : in64 v -> int_result v = LInt v.
Proof. intros H. unfold int_result. apply in64b_spec in H. now rewrite H. Qed.

Lemma int_result_out v : ~ in64 v -> int_result v = LReject.
Proof.
  intros H. unfold int_result. destruct (in64b v) eqn:E; [|reflexivity].
  apply in64b_spec in E. contradiction.
Qed.

Theorem int_value_exact base l :
  sep_ok base l = true -> in64 (pos_value base (digits_of l)) ->
  int_denote base l = LInt (pos_value base (digits_of l)).
Proof.
  intros Hs Hv. unfold int_denote. rewrite Hs, horner_pos_value. now apply int_result_in.
Qed.

Theorem int_unrepresentable_rejected base l :
  sep_ok base l = true -> ~ in64 (pos_value base (digits_of l)) ->
  int_denote base l = LReject.
Proof.
  intros Hs Hv. unfold int_denote. rewrite Hs, horner_pos_value. now apply int_result_out.
Qed.

(* never a different number *)
Corollary int_never_wrong base l z :
  sep_ok base l = true -> int_denote base l = LInt z -> z = pos_value base (digits_of l) /\ in64 z.
Proof.
  intros Hs. unfold int_denote. rewrite Hs, horner_pos_value. unfold int_result.
  destruct (in64b _) eqn:E; [|discriminate]. intros [= <-]. split; [reflexivity|now apply in64b_spec].
Qed.

(* ---------- exponent-int ---------- *)
(* v is the integer m * 10^k *)
Definition is_dec_int (m k v : Z) : Prop :=
  if 0 <=? k then v = m * 10 ^ k else m = v * 10 ^ (- k).

Lemma pow_pos_sq_spec b p : pow_pos_sq b p = b ^ Zpos p.
Proof.
  induction p as [q IH|q IH|]; cbn [pow_pos_sq].
  - rewrite IH. rewrite Pos2Z.inj_xI. rewrite Z.pow_add_r, Z.pow_1_r by lia.
    replace (2 * Z.pos q) with (Z.pos q + Z.pos q) by ring. rewrite Z.pow_add_r by lia. ring.
  - rewrite IH. rewrite Pos2Z.inj_xO.
    replace (2 * Z.pos q) with (Z.pos q + Z.pos q) by ring. rewrite Z.pow_add_r by lia. ring.
  - now rewrite Z.pow_1_r.
Qed.

Lemma pow10_spec k : 0 <= k -> pow10 k = 10 ^ k.
Proof. destruct k as [|p|p]; intros H; [reflexivity|apply pow_pos_sq_spec|lia]. Qed.

Lemma expint_value_exact m k v : is_dec_int m k v -> expint_value m k = v.
Proof.
  unfold is_dec_int, expint_value. destruct (Z.leb_spec 0 k) as [Hk|Hk]; intros H.
  - rewrite pow10_spec by lia. now subst.
  - rewrite pow10_spec by lia. subst m. apply Z.div_mul. assert (0 < 10 ^ (- k)) by (apply Z.pow_pos_nonneg; lia). lia.
Qed.

Theorem expint_exact m k v : is_dec_int m k v ->
  (in64 v -> expint m k = LInt v) /\ (~ in64 v -> expint m k = LReject).
Proof.
  intros H. unfold expint. rewrite (expint_value_exact _ _ _ H).
  split; [apply int_result_in | apply int_result_out].
Qed.

(* recorded finding: an exponent form that does not denote an integer is
   truncated, not refused *)
Theorem expint_nonint_rejected_refuted :
  exists m k, 0 <= m /\ (forall v, ~ is_dec_int m k v) /\ expint m k = LInt 0.
Proof.
  exists 1, (-3). split; [lia|]. split; [|reflexivity].
  intros v. unfold is_dec_int. cbn. lia.
Qed.
(* ---------- whole spellings: which form a spelling is ---------- *)
Lemma split_at_none p l : forallb (fun c => negb (p c)) l = true -> split_at p l = None.
Proof.
  induction l as [|c r IH]; cbn [forallb split_at]; [reflexivity|].
  intros H. apply andb_true_iff in H as [Hc Hr]. apply negb_true_iff in Hc.
  now rewrite Hc, IH.
Qed.

Lemma split_at_app p a c b :
  forallb (fun c => negb (p c)) a = true -> p c = true -> split_at p (a ++ c :: b) = Some (a, b).
Proof.
  intros Ha Hc. induction a as [|x r IH]; cbn [app split_at forallb] in *.
  - now rewrite Hc.
  - apply andb_true_iff in Ha as [Hx Hr]. apply negb_true_iff in Hx.
    now rewrite Hx, IH.
Qed.

Lemma forallb_impl {A} (f g : A -> bool) l :
  (forall x, f x = true -> g x = true) -> forallb f l = true -> forallb g l = true.
Proof.
  intros H. induction l as [|x r IH]; cbn [forallb]; [reflexivity|].
  intros E. apply andb_true_iff in E as [E1 E2]. now rewrite (H _ E1), IH.
Qed.

Lemma digit_or_us_range base c : base <= 16 -> (is_digit base c || is_us c) = true ->
  (48 <= c <= 57 \/ 97 <= c <= 102 \/ 65 <= c <= 70 \/ c = 95).
Proof.
  intros Hb H. apply orb_true_iff in H as [H|H].
  - pose proof (digit_char_range base c Hb H). lia.
  - unfold is_us in H. apply Z.eqb_eq in H. lia.
Qed.

Lemma sep_no_dot base l : base <= 16 -> sep_ok base l = true ->
  forallb (fun c => negb (is_dot c)) l = true.
Proof.
  intros Hb H. apply sep_ok_chars in H. revert H. apply forallb_impl. intros c Hc.
  pose proof (digit_or_us_range base c Hb Hc). unfold is_dot.
  destruct (Z.eqb_spec c 46); [lia|reflexivity].
Qed.

Lemma dec_or_us_range c : (is_digit 10 c || is_us c) = true -> (48 <= c <= 57 \/ c = 95).
Proof.
  intros H. apply orb_true_iff in H as [H|H].
  - pose proof (dec_digit_range c H). lia.
  - unfold is_us in H. apply Z.eqb_eq in H. lia.
Qed.

Lemma sep10_no_e l : sep_ok 10 l = true -> forallb (fun c => negb (is_e c)) l = true.
Proof.
  intros H. apply sep_ok_chars in H. revert H. apply forallb_impl. intros c Hc.
  pose proof (dec_or_us_range c Hc). unfold is_e.
  destruct (Z.eqb_spec c 101); [lia|]. destruct (Z.eqb_spec c 69); [lia|reflexivity].
Qed.

Lemma sep_ok_head base l : base <= 16 -> sep_ok base l = true ->
  exists c r, l = c :: r /\ is_digit base c = true.
Proof.
  unfold sep_ok. destruct l as [|c r]; [discriminate|]. intros Hb H.
  apply andb_true_iff in H as [H _]. apply andb_true_iff in H as [H _]. now exists c, r.
Qed.

Definition is_prefix_letter (base p : Z) : bool :=
  if base =? 16 then (p =? 120) || (p =? 88)
  else if base =? 8 then (p =? 111) || (p =? 79)
  else if base =? 2 then (p =? 98) || (p =? 66)
  else false.

(* 0x… 0o… 0b… *)
Lemma lit_prefixed base p l :
  is_prefix_letter base p = true -> sep_ok base l = true ->
  lit_denote_codes (48 :: p :: l) = int_denote base l.
Proof.
  intros Hp Hs.
  assert (base = 16 \/ base = 8 \/ base = 2) as Hb.
  { unfold is_prefix_letter in Hp.
    destruct (Z.eqb_spec base 16); [lia|]. destruct (Z.eqb_spec base 8); [lia|].
    destruct (Z.eqb_spec base 2); [lia|discriminate]. }
  assert (base <= 16) as Hb16 by lia.
  pose proof (sep_no_dot base l Hb16 Hs) as Hd.
  assert (p = 120 \/ p = 88 \/ p = 111 \/ p = 79 \/ p = 98 \/ p = 66) as Hpv.
  { unfold is_prefix_letter in Hp.
    destruct (base =? 16); [apply orb_true_iff in Hp as [Hp|Hp]; apply Z.eqb_eq in Hp; lia|].
    destruct (base =? 8); [apply orb_true_iff in Hp as [Hp|Hp]; apply Z.eqb_eq in Hp; lia|].
    destruct (base =? 2); [apply orb_true_iff in Hp as [Hp|Hp]; apply Z.eqb_eq in Hp; lia|discriminate]. }
  unfold lit_denote_codes.
  change (48 =? 34) with false. cbn match.
  assert (split_at is_dot (48 :: p :: l) = None) as ->.
  { apply split_at_none. cbn [forallb]. rewrite Hd.
    assert (is_dot p = false) as -> by (unfold is_dot; destruct (Z.eqb_spec p 46); [lia|reflexivity]).
    reflexivity. }
  change (48 =? 48) with true. cbn match.
  unfold is_prefix_letter in Hp.
  destruct Hb as [ -> | [ -> | -> ] ]; cbn in Hp.
  - rewrite Hp. reflexivity.
  - destruct Hpv as [->|[->|[->|[ -> | [ -> | -> ] ]]]]; cbn in Hp; try discriminate; reflexivity.
  - destruct Hpv as [->|[->|[->|[ -> | [ -> | -> ] ]]]]; cbn in Hp; try discriminate; reflexivity.
Qed.

(* plain decimal *)
Lemma lit_decimal l : sep_ok 10 l = true -> lit_denote_codes l = int_denote 10 l.
Proof.
  intros Hs.
  pose proof (sep_no_dot 10 l ltac:(lia) Hs) as Hd.
  pose proof (sep10_no_e l Hs) as He.
  pose proof (sep_ok_chars 10 l Hs) as Hc.
  destruct (sep_ok_head 10 l ltac:(lia) Hs) as (c & r & -> & Hc0).
  pose proof (dec_digit_range c Hc0) as Rc.
  unfold lit_denote_codes.
  destruct (Z.eqb_spec c 34); [lia|].
  rewrite (split_at_none _ _ Hd).
  assert (dec_or_exp (c :: r) = int_denote 10 (c :: r)) as Hde.
  { unfold dec_or_exp. now rewrite (split_at_none _ _ He). }
  destruct r as [|p r1]; [exact Hde|].
  destruct (c =? 48); [|exact Hde].
  cbn [forallb] in Hc. apply andb_true_iff in Hc as [_ Hc]. apply andb_true_iff in Hc as [Hp _].
  pose proof (dec_or_us_range p Hp) as Rp.
  destruct (Z.eqb_spec p 120); [lia|]. destruct (Z.eqb_spec p 88); [lia|].
  destruct (Z.eqb_spec p 111); [lia|]. destruct (Z.eqb_spec p 79); [lia|].
  destruct (Z.eqb_spec p 98); [lia|]. destruct (Z.eqb_spec p 66); [lia|].
  exact Hde.
Qed.

(* a whole integer spelling: optional 0x / 0o / 0b prefix, digits with separators *)
Definition int_spelling (base : Z) (pre : list Z) : Prop :=
  (base = 10 /\ pre = []) \/ (exists p, pre = [48; p] /\ is_prefix_letter base p = true).

Theorem int_literal_exact base pre l :
  int_spelling base pre -> sep_ok base l = true ->
  let v := pos_value base (digits_of l) in
  (in64 v -> lit_denote_codes (pre ++ l) = LInt v) /\
  (~ in64 v -> lit_denote_codes (pre ++ l) = LReject).
Proof.
  intros Hp Hs v.
  assert (lit_denote_codes (pre ++ l) = int_denote base l) as ->.
  { destruct Hp as [[-> ->]|(p & -> & Hp)]; [now apply lit_decimal | now apply lit_prefixed]. }
  split; intros Hv; [now apply int_value_exact | now apply int_unrepresentable_rejected].
Qed.

(* ---------- exponent forms: the spelling ---------- *)
Lemma plain_ok_chars l : plain_ok 10 l = true -> forallb (is_digit 10) l = true.
Proof. unfold plain_ok. destruct l; [discriminate|auto]. Qed.

Lemma exp_of_chars es k : exp_of es = Some k ->
  forallb (fun c => negb (is_dot c)) es = true.
Proof.
  assert (forall l, forallb (is_digit 10) l = true -> forallb (fun c => negb (is_dot c)) l = true) as A.
  { intros l. apply forallb_impl. intros c Hc. pose proof (dec_digit_range c Hc). unfold is_dot.
    destruct (Z.eqb_spec c 46); [lia|reflexivity]. }
  unfold exp_of. destruct es as [|c r]; [discriminate|].
  destruct (Z.eqb_spec c 45) as [->|Hc].
  - destruct (plain_ok 10 r) eqn:P; [|discriminate]. intros _. cbn [forallb]. rewrite (A _ (plain_ok_chars _ P)). reflexivity.
  - assert (forall (X : option Z), match c with 45 => X | _ => if plain_ok 10 (c :: r) then Some (horner 10 (map dval (c :: r))) else None end
                   = if plain_ok 10 (c :: r) then Some (horner 10 (map dval (c :: r))) else None) as E.
    { intros X. destruct c as [|q|q]; try reflexivity.
      do 6 (destruct q as [q|q|]; try reflexivity). lia. }
    rewrite E. destruct (plain_ok 10 (c :: r)) eqn:P; [|discriminate]. intros _. apply A, (plain_ok_chars _ P).
Qed.

(* the exponent is the signed decimal value of its digits *)
Lemma exp_of_value es k : exp_of es = Some k ->
  (exists r, es = 45 :: r /\ plain_ok 10 r = true /\ k = - pos_value 10 (map dval r)) \/
  (plain_ok 10 es = true /\ k = pos_value 10 (map dval es)).
Proof.
  unfold exp_of. destruct es as [|c r]; [discriminate|].
  destruct (Z.eqb_spec c 45) as [->|Hc].
  - destruct (plain_ok 10 r) eqn:P; [|discriminate]. intros [= <-]. left. exists r.
    now rewrite horner_pos_value.
  - assert (forall (X : option Z), match c with 45 => X | _ => if plain_ok 10 (c :: r) then Some (horner 10 (map dval (c :: r))) else None end
                   = if plain_ok 10 (c :: r) then Some (horner 10 (map dval (c :: r))) else None) as E.
    { intros X. destruct c as [|q|q]; try reflexivity.
      do 6 (destruct q as [q|q|]; try reflexivity). lia. }
    rewrite E. destruct (plain_ok 10 (c :: r)) eqn:P; [|discriminate]. intros [= <-]. right.
    now rewrite horner_pos_value.
Qed.

Lemma is_e_val E : is_e E = true -> E = 101 \/ E = 69.
Proof. unfold is_e. intros H. apply orb_true_iff in H as [H|H]; apply Z.eqb_eq in H; lia. Qed.

Lemma lit_expint ms E es k :
  sep_ok 10 ms = true -> is_e E = true -> exp_of es = Some k ->
  lit_denote_codes (ms ++ E :: es) = expint (pos_value 10 (digits_of ms)) k.
Proof.
  intros Hs HE Hk.
  pose proof (sep_no_dot 10 ms ltac:(lia) Hs) as Hd.
  pose proof (sep10_no_e ms Hs) as He.
  pose proof (sep_ok_chars 10 ms Hs) as Hc.
  pose proof (exp_of_chars es k Hk) as Hed.
  pose proof (is_e_val E HE) as EV.
  assert (dec_or_exp (ms ++ E :: es) = expint (pos_value 10 (digits_of ms)) k) as Hde.
  { unfold dec_or_exp. rewrite (split_at_app _ _ _ _ He HE). unfold expint_denote.
    now rewrite Hs, Hk, horner_pos_value. }
  assert (split_at is_dot (ms ++ E :: es) = None) as Hnd.
  { apply split_at_none. rewrite forallb_app. rewrite Hd. cbn [forallb]. rewrite Hed.
    assert (is_dot E = false) as -> by (unfold is_dot; destruct (Z.eqb_spec E 46); [lia|reflexivity]).
    reflexivity. }
  destruct (sep_ok_head 10 ms ltac:(lia) Hs) as (c & r & Eq & Hc0). subst ms.
  pose proof (dec_digit_range c Hc0) as Rc.
  unfold lit_denote_codes. cbn [app] in *.
  destruct (Z.eqb_spec c 34); [lia|].
  rewrite Hnd.
  assert (exists p r1, r ++ E :: es = p :: r1 /\ (48 <= p <= 57 \/ p = 95 \/ p = 101 \/ p = 69)) as (p & r1 & Er & Rp).
  { destruct r as [|p r0]; cbn [app].
    - exists E, es. split; [reflexivity|lia].
    - exists p, (r0 ++ E :: es). split; [reflexivity|].
      cbn [forallb] in Hc. apply andb_true_iff in Hc as [_ Hc]. apply andb_true_iff in Hc as [Hp _].
      pose proof (dec_or_us_range p Hp). lia. }
  rewrite Er. rewrite Er in Hde.
  destruct (c =? 48); [|exact Hde].
  destruct (Z.eqb_spec p 120); [lia|]. destruct (Z.eqb_spec p 88); [lia|].
  destruct (Z.eqb_spec p 111); [lia|]. destruct (Z.eqb_spec p 79); [lia|].
  destruct (Z.eqb_spec p 98); [lia|]. destruct (Z.eqb_spec p 66); [lia|].
  exact Hde.
Qed.

Theorem expint_literal_exact ms E es k v :
  sep_ok 10 ms = true -> is_e E = true -> exp_of es = Some k ->
  is_dec_int (pos_value 10 (digits_of ms)) k v ->
  (in64 v -> lit_denote_codes (ms ++ E :: es) = LInt v) /\
  (~ in64 v -> lit_denote_codes (ms ++ E :: es) = LReject).
Proof.
  intros Hs HE Hk Hv. rewrite (lit_expint ms E es k Hs HE Hk). now apply expint_exact.
Qed.

(* ---------- floats ---------- *)
Definition radix10 : radix := Build_radix 10 eq_refl.
(* round to nearest, ties to even, in binary64 with unbounded exponent range above *)
Definition rne (x : R) : R := round radix2 (FLT_exp (-1074) 53) ZnearestE x.

Lemma F2R_exp0 m : F2R (Float radix2 m 0) = IZR m.
Proof. unfold F2R. simpl. now rewrite Rmult_1_r. Qed.

Lemma round_ratio_correct n d :
  let r := rne (IZR (Zpos n) / IZR (Zpos d)) in
  if Rlt_bool (Rabs r) (bpow radix2 1024)
  then exists f, sf_to_fres (round_ratio n d) (round_ratio_valid n d) = FVal f /\
                 is_finite 53 1024 f = true /\ B2R 53 1024 f = r
  else sf_to_fres (round_ratio n d) (round_ratio_valid n d) = FReject.
Proof.
  intros r.
  destruct (BinarySingleNaN.Bdiv_correct_aux 53 1024 eq_refl eq_refl mode_NE false n 0 false d 0) as [Hv H].
  cbn [SpecFloat.cond_Zopp xorb] in H.
  rewrite !F2R_exp0 in H.
  change (round radix2 (SpecFloat.fexp 53 1024) (round_mode mode_NE) (IZR (Z.pos n) / IZR (Z.pos d))) with r in H.
  fold (round_ratio n d) in H.
  generalize (round_ratio_valid n d).
  destruct (Rlt_bool (Rabs r) (bpow radix2 1024)).
  - destruct H as (HR & Hf & _).
    destruct (round_ratio n d) as [s|s| |s m e]; try discriminate Hf; intros V.
    + exists (B754_zero 53 1024 s). cbn. repeat split. exact HR.
    + exists (B754_finite 53 1024 s m e V). cbn. repeat split. exact HR.
  - rewrite H. intros V. reflexivity.
Qed.

(* the written decimal m * 10^k *)
Definition dec_real (m k : Z) : R := (IZR m * bpow radix10 k)%R.

Lemma pow10_bpow k : 0 <= k -> IZR (10 ^ k) = bpow radix10 k.
Proof. intros H. rewrite <- IZR_Zpower by assumption. reflexivity. Qed.

Lemma rne_0 : rne 0 = 0%R.
Proof. unfold rne. apply round_0. typeclasses eauto. Qed.

Theorem float_nearest m k : 0 <= m ->
  let r := rne (dec_real m k) in
  if Rlt_bool (Rabs r) (bpow radix2 1024)
  then exists f, dec_to_float m k = FVal f /\ is_finite 53 1024 f = true /\ B2R 53 1024 f = r
  else dec_to_float m k = FReject.
Proof.
  intros Hm r.
  destruct (Z.eq_dec m 0) as [->|Hm0].
  { assert (r = 0%R) as ->.
    { unfold r, dec_real. rewrite Rmult_0_l. apply rne_0. }
    rewrite Rabs_R0, Rlt_bool_true by apply bpow_gt_0.
    exists (B754_zero 53 1024 false). unfold dec_to_float.
    destruct (0 <=? k); cbn; repeat split. }
  unfold dec_to_float.
  destruct (Z.leb_spec 0 k) as [Hk|Hk].
  - rewrite pow10_spec by lia.
    assert (0 < m * 10 ^ k) as Hp by (apply Z.mul_pos_pos; [lia | apply Z.pow_pos_nonneg; lia]).
    destruct (m * 10 ^ k) as [|n|n] eqn:E; try lia.
    assert (dec_real m k = IZR (Zpos n) / IZR (Zpos 1))%R as Hx.
    { unfold dec_real. rewrite <- pow10_bpow by assumption. rewrite <- mult_IZR, E. field. }
    unfold r. rewrite Hx. apply round_ratio_correct.
  - rewrite pow10_spec by lia.
    destruct m as [|n|n]; try lia.
    assert (0 < 10 ^ (- k)) as Hp by (apply Z.pow_pos_nonneg; lia).
    destruct (10 ^ (- k)) as [|d|d] eqn:E; try lia.
    assert (dec_real (Zpos n) k = IZR (Zpos n) / IZR (Zpos d))%R as Hx.
    { unfold dec_real. replace k with (- (- k)) at 1 by ring.
      rewrite bpow_opp, <- pow10_bpow by lia. rewrite E. reflexivity. }
    unfold r. rewrite Hx. apply round_ratio_correct.
Qed.

(* what is written: integer digits I, fraction digits F, exponent e:
   (I + F / 10^|F|) * 10^e *)
Definition written_decimal (I F : list Z) (e : Z) : R :=
  ((IZR (pos_value 10 I) + IZR (pos_value 10 F) * bpow radix10 (- Z.of_nat (length F))) * bpow radix10 e)%R.

Lemma written_decimal_eq I F e :
  written_decimal I F e = dec_real (pos_value 10 (I ++ F)) (e - Z.of_nat (length F)).
Proof.
  unfold written_decimal, dec_real. rewrite pos_value_app, plus_IZR, mult_IZR.
  rewrite pow10_bpow by lia.
  unfold Z.sub. rewrite (bpow_plus radix10 e).
  set (n := Z.of_nat (length F)).
  assert (bpow radix10 n * bpow radix10 (- n) = 1)%R as Hn.
  { rewrite <- bpow_plus. replace (n + - n) with 0 by ring. reflexivity. }
  set (a := bpow radix10 n) in *. set (b := bpow radix10 (- n)) in *.
  transitivity ((IZR (pos_value 10 I) * (a * b) + IZR (pos_value 10 F) * b) * bpow radix10 e)%R.
  - rewrite Hn. ring.
  - ring.
Qed.

(* the spelling  ip . fp [E es] *)
Definition float_tail (tail : list Z) (e : Z) : Prop :=
  (tail = [] /\ e = 0) \/ (exists E es, tail = E :: es /\ is_e E = true /\ exp_of es = Some e).

Lemma float_tail_no_dot tail e : float_tail tail e -> forallb (fun c => negb (is_dot c)) tail = true.
Proof.
  intros [[-> _]|(E & es & -> & HE & Hk)]; [reflexivity|].
  cbn [forallb]. rewrite (exp_of_chars _ _ Hk).
  pose proof (is_e_val E HE). unfold is_dot. destruct (Z.eqb_spec E 46); [lia|reflexivity].
Qed.

Lemma lit_float ip fp tail e :
  (ip = [] \/ sep_ok 10 ip = true) -> sep_ok 10 fp = true -> float_tail tail e ->
  lit_denote_codes (ip ++ 46 :: fp ++ tail) =
  float_result (dec_to_float (pos_value 10 (digits_of ip ++ digits_of fp))
                             (e - Z.of_nat (length (digits_of fp)))).
Proof.
  intros Hip Hfp Ht.
  assert (forallb (fun c => negb (is_dot c)) ip = true) as Hipd.
  { destruct Hip as [->|Hip]; [reflexivity|]. now apply (sep_no_dot 10). }
  assert ((match ip with [] => true | _ => sep_ok 10 ip end) = true) as Hipok.
  { destruct Hip as [->|Hip]; [reflexivity|]. destruct ip; [discriminate|exact Hip]. }
  assert (float_denote ip (fp ++ tail) =
          float_result (dec_to_float (pos_value 10 (digits_of ip ++ digits_of fp))
                                     (e - Z.of_nat (length (digits_of fp))))) as Hfd.
  { unfold float_denote.
    destruct Ht as [[-> ->]|(E & es & -> & HE & Hk)].
    - rewrite app_nil_r. rewrite (split_at_none _ _ (sep10_no_e _ Hfp)).
      rewrite Hipok, Hfp. cbn [andb]. now rewrite horner_pos_value.
    - rewrite (split_at_app _ _ _ _ (sep10_no_e _ Hfp) HE).
      rewrite Hipok, Hfp, Hk. cbn [andb]. now rewrite horner_pos_value. }
  unfold lit_denote_codes.
  assert (is_dot 46 = true) as Hdot by reflexivity.
  pose proof (split_at_app is_dot ip 46 (fp ++ tail) Hipd Hdot) as Hsp.
  destruct ip as [|c r].
  - cbn [app] in *. change (46 =? 34) with false. cbn match.
    cbn [app] in Hsp. rewrite Hsp. exact Hfd.
  - cbn [app] in *.
    assert (c =? 34 = false) as ->.
    { destruct Hip as [Hip|Hip]; [discriminate|].
      destruct (sep_ok_head 10 _ ltac:(lia) Hip) as (c' & r' & [= <- <-] & Hc0).
      pose proof (dec_digit_range c Hc0). destruct (Z.eqb_spec c 34); [lia|reflexivity]. }
    rewrite Hsp. exact Hfd.
Qed.

Theorem float_literal_nearest ip fp tail e :
  (ip = [] \/ sep_ok 10 ip = true) -> sep_ok 10 fp = true -> float_tail tail e ->
  let r := rne (written_decimal (digits_of ip) (digits_of fp) e) in
  if Rlt_bool (Rabs r) (bpow radix2 1024)
  then exists f, lit_denote_codes (ip ++ 46 :: fp ++ tail) = LFloat (bits_of_b64 f) /\
                 is_finite 53 1024 f = true /\ B2R 53 1024 f = r
  else lit_denote_codes (ip ++ 46 :: fp ++ tail) = LReject.
Proof.
  intros Hip Hfp Ht r.
  rewrite (lit_float ip fp tail e Hip Hfp Ht).
  unfold r. rewrite written_decimal_eq.
  assert (0 <= pos_value 10 (digits_of ip ++ digits_of fp)) as Hm.
  { apply pos_value_nonneg; [lia|]. apply Forall_app. split.
    - destruct Hip as [->|Hip]; [constructor|].
      eapply Forall_impl; [|apply (int_digits_valid 10 ip ltac:(lia) Hip)]. cbn. lia.
    - eapply Forall_impl; [|apply (int_digits_valid 10 fp ltac:(lia) Hfp)]. cbn. lia. }
  pose proof (float_nearest _ (e - Z.of_nat (length (digits_of fp))) Hm) as H. cbv zeta in H.
  destruct (Rlt_bool _ _).
  - destruct H as (f & -> & Hf & HR). exists f. cbn [float_result]. auto.
  - rewrite H. reflexivity.
Qed.

(* ---------- double-quoted strings ---------- *)
(* Go's escape table for a double-quoted string (strconv.UnquoteChar) *)
Definition escape_table : list (Z * Z) :=
  [(97, 7); (98, 8); (102, 12); (110, 10); (114, 13); (116, 9); (118, 11); (92, 92); (34, 34)].

Definition all_hex (l : list Z) : Prop := forallb (is_digit 16) l = true.

(* one item: input, bytes produced, remaining input *)
Inductive item : list Z -> list Z -> list Z -> Prop :=
| item_plain c r : c <> 92 -> c <> 34 -> c <> 10 -> item (c :: r) [c] r
| item_simple e b r : In (e, b) escape_table -> item (92 :: e :: r) [b] r
| item_hex h1 h2 r : all_hex [h1; h2] ->
    item (92 :: 120 :: h1 :: h2 :: r) [pos_value 16 (map dval [h1; h2])] r
| item_u h1 h2 h3 h4 r : all_hex [h1; h2; h3; h4] ->
    valid_rune (pos_value 16 (map dval [h1; h2; h3; h4])) = true ->
    item (92 :: 117 :: h1 :: h2 :: h3 :: h4 :: r) (utf8_enc (pos_value 16 (map dval [h1; h2; h3; h4]))) r
| item_U h1 h2 h3 h4 h5 h6 h7 h8 r : all_hex [h1; h2; h3; h4; h5; h6; h7; h8] ->
    valid_rune (pos_value 16 (map dval [h1; h2; h3; h4; h5; h6; h7; h8])) = true ->
    item (92 :: 85 :: h1 :: h2 :: h3 :: h4 :: h5 :: h6 :: h7 :: h8 :: r)
         (utf8_enc (pos_value 16 (map dval [h1; h2; h3; h4; h5; h6; h7; h8]))) r
| item_oct o1 o2 o3 r : is_digit 8 o1 = true -> is_digit 8 o2 = true -> is_digit 8 o3 = true ->
    pos_value 8 (map dval [o1; o2; o3]) <= 255 ->
    item (92 :: o1 :: o2 :: o3 :: r) [pos_value 8 (map dval [o1; o2; o3])] r.

Inductive decodes : list Z -> list Z -> Prop :=
| dec_nil : decodes [] []
| dec_item l o r o2 : item l o r -> decodes r o2 -> decodes l (o ++ o2).

(* the characters after a backslash that start a defined escape *)
Definition escape_defined (e : Z) : bool :=
  existsb (fun p => fst p =? e) escape_table || (e =? 120) || (e =? 117) || (e =? 85) || is_digit 8 e.

Lemma simple_escape_table e b : simple_escape e = Some b <-> In (e, b) escape_table.
Proof.
  unfold simple_escape, escape_table. split.
  - repeat match goal with |- context [?x =? ?y] => destruct (Z.eqb_spec x y); [subst; intros [= <-]; cbn; tauto|] end.
    discriminate.
  - cbn. intros H. repeat destruct H as [H|H]; try (injection H as <- <-; reflexivity). contradiction.
Qed.

Lemma simple_escape_none_oct e : is_digit 8 e = true -> simple_escape e = None /\ e <> 120 /\ e <> 117 /\ e <> 85.
Proof.
  intros H. pose proof (oct_digit_range e H) as R. unfold simple_escape.
  repeat match goal with |- context [?x =? ?y] => destruct (Z.eqb_spec x y); [lia|] end.
  repeat split; lia.
Qed.

Lemma hexv_some l : all_hex l -> hexv l = Some (pos_value 16 (map dval l)).
Proof. unfold all_hex, hexv. intros ->. now rewrite horner_pos_value. Qed.

Lemma hexv_inv l v : hexv l = Some v -> all_hex l /\ v = pos_value 16 (map dval l).
Proof.
  unfold hexv, all_hex. destruct (forallb _ l); [|discriminate]. intros [= <-].
  now rewrite horner_pos_value.
Qed.

Lemma next_item_sound l o r : next_item l = Some (o, r) -> item l o r.
Proof.
  unfold next_item. destruct l as [|c l1]; [discriminate|].
  destruct (Z.eqb_spec c 92) as [->|Hc].
  - destruct l1 as [|e r1]; [discriminate|].
    destruct (simple_escape e) as [b|] eqn:SE.
    { intros [= <- <-]. apply item_simple. now apply simple_escape_table. }
    destruct (Z.eqb_spec e 120) as [->|He1].
    { destruct r1 as [|h1 [|h2 r2]]; try discriminate.
      destruct (hexv [h1; h2]) as [v|] eqn:HV; [|discriminate]. intros [= <- <-].
      apply hexv_inv in HV as [HA ->]. now apply item_hex. }
    destruct (Z.eqb_spec e 117) as [->|He2].
    { destruct r1 as [|h1 [|h2 [|h3 [|h4 r2]]]]; try discriminate.
      unfold rune_out. destruct (hexv [h1; h2; h3; h4]) as [v|] eqn:HV; [|discriminate].
      destruct (valid_rune v) eqn:VR; [|discriminate]. intros [= <- <-].
      apply hexv_inv in HV as [HA ->]. now apply item_u. }
    destruct (Z.eqb_spec e 85) as [->|He3].
    { destruct r1 as [|h1 [|h2 [|h3 [|h4 [|h5 [|h6 [|h7 [|h8 r2]]]]]]]]; try discriminate.
      unfold rune_out. destruct (hexv [h1; h2; h3; h4; h5; h6; h7; h8]) as [v|] eqn:HV; [|discriminate].
      destruct (valid_rune v) eqn:VR; [|discriminate]. intros [= <- <-].
      apply hexv_inv in HV as [HA ->]. now apply item_U. }
    destruct (is_digit 8 e) eqn:D1; [|discriminate].
    destruct r1 as [|o2 [|o3 r2]]; try discriminate.
    destruct (is_digit 8 o2) eqn:D2; [|discriminate].
    destruct (is_digit 8 o3) eqn:D3; [|discriminate]. cbn [andb].
    rewrite horner_pos_value.
    destruct (Z.leb_spec (pos_value 8 [dval e; dval o2; dval o3]) 255); [|discriminate].
    intros [= <- <-]. now apply item_oct.
  - destruct (Z.eqb_spec c 34); [discriminate|]. destruct (Z.eqb_spec c 10); [discriminate|].
    cbn [orb]. intros [= <- <-]. now apply item_plain.
Qed.

Lemma next_item_complete l o r : item l o r -> next_item l = Some (o, r).
Proof.
  intros H. destruct H as [c r Hc1 Hc2 Hc3|e b r Hin|h1 h2 r HA|h1 h2 h3 h4 r HA VR|h1 h2 h3 h4 h5 h6 h7 h8 r HA VR|o1 o2 o3 r D1 D2 D3 Hle];
    unfold next_item.
  - destruct (Z.eqb_spec c 92); [contradiction|]. destruct (Z.eqb_spec c 34); [contradiction|].
    destruct (Z.eqb_spec c 10); [contradiction|]. reflexivity.
  - change (92 =? 92) with true. cbn match. apply simple_escape_table in Hin. now rewrite Hin.
  - change (92 =? 92) with true. cbn match. change (simple_escape 120) with (@None Z). cbn match.
    change (120 =? 120) with true. cbn match. now rewrite (hexv_some _ HA).
  - change (92 =? 92) with true. cbn match. change (simple_escape 117) with (@None Z). cbn match.
    change (117 =? 120) with false. change (117 =? 117) with true. cbn match.
    unfold rune_out. now rewrite (hexv_some _ HA), VR.
  - change (92 =? 92) with true. cbn match. change (simple_escape 85) with (@None Z). cbn match.
    change (85 =? 120) with false. change (85 =? 117) with false. change (85 =? 85) with true. cbn match.
    unfold rune_out. now rewrite (hexv_some _ HA), VR.
  - change (92 =? 92) with true. cbn match.
    destruct (simple_escape_none_oct o1 D1) as (-> & N1 & N2 & N3).
    destruct (Z.eqb_spec o1 120); [contradiction|]. destruct (Z.eqb_spec o1 117); [contradiction|].
    destruct (Z.eqb_spec o1 85); [contradiction|].
    rewrite D1, D2, D3. cbn [andb]. rewrite horner_pos_value.
    destruct (Z.leb_spec (pos_value 8 [dval o1; dval o2; dval o3]) 255); [reflexivity|].
    cbn [map] in Hle. lia.
Qed.

Lemma item_shorter l o r : item l o r -> (length r < length l)%nat.
Proof. intros H. destruct H; cbn [length]; lia. Qed.

Lemma item_app l o r x : item l o r -> item (l ++ x) o (r ++ x).
Proof. intros H. destruct H; cbn [app]; constructor; assumption. Qed.

Lemma unquote_fuel_sound fuel : forall l out, unquote_fuel fuel l = Some out -> decodes l out.
Proof.
  induction fuel as [|f IH]; intros l out.
  - destruct l; cbn; [intros [= <-]; constructor | discriminate].
  - destruct l as [|c r]; [cbn; intros [= <-]; constructor|].
    cbn [unquote_fuel]. destruct (next_item (c :: r)) as [[o rest]|] eqn:NI; [|discriminate].
    destruct (unquote_fuel f rest) as [o2|] eqn:U; [|discriminate]. intros [= <-].
    econstructor; [apply next_item_sound; eassumption | now apply IH].
Qed.

Lemma unquote_fuel_complete l out : decodes l out ->
  forall fuel, (length l <= fuel)%nat -> unquote_fuel fuel l = Some out.
Proof.
  induction 1 as [|l o r o2 Hi Hd IH]; intros fuel Hf.
  - destruct fuel; reflexivity.
  - pose proof (item_shorter _ _ _ Hi) as Hs.
    destruct l as [|c l1]; [inversion Hi|].
    destruct fuel as [|f]; [cbn [length] in Hf; lia|].
    cbn [unquote_fuel]. rewrite (next_item_complete _ _ _ Hi).
    rewrite IH by (cbn [length] in *; lia). reflexivity.
Qed.

Theorem string_decodes l out : unquote_body l = Some out <-> decodes l out.
Proof.
  unfold unquote_body. split.
  - apply unquote_fuel_sound.
  - intros H. now apply unquote_fuel_complete.
Qed.

Lemma undefined_next_item e r : escape_defined e = false -> next_item (92 :: e :: r) = None.
Proof.
  unfold escape_defined. intros H.
  apply orb_false_iff in H as [H D8]. apply orb_false_iff in H as [H EU].
  apply orb_false_iff in H as [H Eu]. apply orb_false_iff in H as [H Ex].
  unfold next_item. change (92 =? 92) with true. cbn match.
  destruct (simple_escape e) as [b|] eqn:SE.
  { apply simple_escape_table in SE. exfalso.
    assert (existsb (fun p : Z * Z => fst p =? e) escape_table = true) as C.
    { apply existsb_exists. exists (e, b). split; [assumption|cbn; apply Z.eqb_refl]. }
    congruence. }
  now rewrite Ex, Eu, EU, D8.
Qed.

Theorem undefined_escape_rejected l1 o1 e l2 :
  decodes l1 o1 -> escape_defined e = false -> unquote_body (l1 ++ 92 :: e :: l2) = None.
Proof.
  intros Hd He. unfold unquote_body. generalize (length (l1 ++ 92 :: e :: l2)).
  induction Hd as [|l o r o2 Hi Hd IH]; intros fuel.
  - cbn [app]. destruct fuel; [reflexivity|]. cbn [unquote_fuel]. now rewrite undefined_next_item.
  - pose proof (item_app _ _ _ (92 :: e :: l2) Hi) as Hi'.
    destruct (l ++ 92 :: e :: l2) as [|c l'] eqn:E; [inversion Hi'|].
    destruct fuel; [reflexivity|]. cbn [unquote_fuel].
    rewrite (next_item_complete _ _ _ Hi'), IH. reflexivity.
Qed.

(* the whole spelling  "body" *)
Lemma lit_string body :
  lit_denote_codes (34 :: body ++ [34]) = str_denote body.
Proof.
  unfold lit_denote_codes. change (34 =? 34) with true. cbn match.
  rewrite rev_app_distr. cbn [rev app]. change (34 =? 34) with true. cbn match.
  now rewrite rev_involutive.
Qed.

Theorem string_literal_decodes body out :
  starts_embedded body = false -> decodes body out ->
  lit_denote_codes (34 :: body ++ [34]) = LStr out.
Proof.
  intros HE HD. rewrite lit_string. unfold str_denote. rewrite HE.
  apply string_decodes in HD. now rewrite HD.
Qed.

Theorem string_literal_undefined_escape_rejected l1 o1 e l2 :
  starts_embedded (l1 ++ 92 :: e :: l2) = false ->
  decodes l1 o1 -> escape_defined e = false ->
  lit_denote_codes (34 :: (l1 ++ 92 :: e :: l2) ++ [34]) = LReject.
Proof.
  intros HE HD He. rewrite lit_string. unfold str_denote. rewrite HE.
  now rewrite (undefined_escape_rejected l1 o1 e l2 HD He).
Qed.

(* ---------- names ---------- *)
Lemma span_all p l : forallb p l = true -> span p l = (l, []).
Proof.
  induction l as [|c r IH]; cbn [forallb span]; [reflexivity|].
  intros H. apply andb_true_iff in H as [Hc Hr]. now rewrite Hc, IH.
Qed.

Lemma span_app_stop p w b r : forallb p w = true -> p b = false -> span p (w ++ b :: r) = (w, b :: r).
Proof.
  intros Hw Hb. induction w as [|c w' IH]; cbn [app span forallb] in *.
  - now rewrite Hb.
  - apply andb_true_iff in Hw as [Hc Hw]. now rewrite Hc, IH.
Qed.

Lemma bangq_not_word b : is_bangq b = true -> is_word b = false.
Proof.
  unfold is_bangq, is_word, is_alpha, between, is_us. intros H.
  apply orb_true_iff in H as [H|H]; apply Z.eqb_eq in H; subst; reflexivity.
Qed.

(* [a-zA-Z0-9_]*[!?]? consumes all of w ++ suf *)
Definition name_suffix (suf : list Z) : Prop := suf = [] \/ exists b, suf = [b] /\ is_bangq b = true.

Lemma m_tail_whole w suf : forallb is_word w = true -> name_suffix suf -> m_tail (w ++ suf) = (w ++ suf, []).
Proof.
  intros Hw [->|(b & -> & Hb)]; unfold m_tail.
  - rewrite app_nil_r, (span_all _ _ Hw). reflexivity.
  - rewrite (span_app_stop _ _ _ _ Hw (bangq_not_word _ Hb)). now rewrite Hb.
Qed.

Lemma m_ident_whole c w suf : is_alpha c = true -> forallb is_word w = true -> name_suffix suf ->
  m_ident (c :: w ++ suf) = Some (c :: w ++ suf, []).
Proof. intros Hc Hw Hs. unfold m_ident. now rewrite Hc, (m_tail_whole _ _ Hw Hs). Qed.

Lemma alpha_not_us c : is_alpha c = true -> is_us c = false.
Proof.
  unfold is_alpha, between, is_us. intros H. destruct (Z.eqb_spec c 95) as [->|]; [discriminate H|reflexivity].
Qed.

Lemma us_not_alpha c : is_us c = true -> is_alpha c = false.
Proof. unfold is_us. intros H. apply Z.eqb_eq in H. now subst. Qed.

Lemma us_is_word c : is_us c = true -> is_word c = true.
Proof. unfold is_word. intros ->. now rewrite orb_true_r. Qed.

Lemma alpha_is_word c : is_alpha c = true -> is_word c = true.
Proof. unfold is_word. now intros ->. Qed.

(* a private name: underscores, then nothing or a name starting with a letter *)
Lemma m_private_whole : forall w suf c,
  is_us c = true -> forallb is_word w = true -> name_suffix suf ->
  underscore_nonletter (c :: w ++ suf) = false ->
  m_private (c :: w ++ suf) = Some (c :: w ++ suf, []).
Proof.
  induction w as [|d w IH]; intros suf c Hc Hw Hs Hg.
  - (* only the suffix follows the first underscore *)
    cbn [app] in *. unfold m_private, underscore_nonletter in *. cbn [span] in *. rewrite Hc in *.
    destruct Hs as [->|(b & -> & Hb)].
    + cbn. reflexivity.
    + exfalso. pose proof (bangq_not_word _ Hb) as Nb.
      assert (is_us b = false) as Ub.
      { destruct (is_us b) eqn:U; [|reflexivity]. apply us_is_word in U. congruence. }
      cbn [span] in Hg. rewrite Ub in Hg.
      assert (is_alpha b = false) as Ab.
      { destruct (is_alpha b) eqn:A; [|reflexivity]. apply alpha_is_word in A. congruence. }
      rewrite Ab in Hg. discriminate.
  - cbn [app forallb] in *. apply andb_true_iff in Hw as [Hd Hw].
    unfold m_private, underscore_nonletter in *. cbn [span] in *. rewrite Hc in *.
    destruct (is_us d) eqn:Ud.
    + (* another underscore: use the induction hypothesis on d :: w ++ suf *)
      specialize (IH suf d Ud Hw Hs). unfold m_private, underscore_nonletter in IH.
      cbn [span] in IH. rewrite Ud in IH.
      destruct (span is_us (w ++ suf)) as [us r] eqn:Sp.
      specialize (IH Hg).
      destruct (m_ident r) as [[t r']|]; injection IH as E1 E2.
      * subst r'. cbn [app] in *. now rewrite E1.
      * subst r. cbn [app] in *. now rewrite E1.
    + (* d is the first non-underscore: it must be a letter *)
      destruct (is_alpha d) eqn:Ad; [|discriminate Hg].
      rewrite (m_ident_whole d w suf Ad Hw Hs). reflexivity.
Qed.

Lemma list_eqb_eq a : forall b, list_eqb a b = true <-> a = b.
Proof.
  induction a as [|x a IH]; intros [|y b]; cbn [list_eqb]; try (split; [discriminate|discriminate]); try tauto.
  rewrite andb_true_iff, Z.eqb_eq, IH. split; [intros [-> ->]; reflexivity | intros [= -> ->]; auto].
Qed.

Lemma m_lit_app p : forall l r, m_lit p l = Some r -> l = p ++ r.
Proof.
  induction p as [|a p IH]; intros l r; cbn [m_lit app].
  - now intros [= ->].
  - destruct l as [|b l']; [discriminate|]. destruct (Z.eqb_spec a b) as [->|]; [|discriminate].
    intros H. now rewrite (IH _ _ H).
Qed.

Lemma m_ident_stop c x rest : is_alpha c = true -> is_word x = false -> is_bangq x = false ->
  m_ident (c :: x :: rest) = Some ([c], x :: rest).
Proof. intros Hc Hx Hb. unfold m_ident, m_tail. cbn [span]. now rewrite Hc, Hx, Hb. Qed.

Lemma next_tok_name s :
  m_ident s = Some (s, []) -> reserved s = false -> next_tok s = Some (TIdent s, []).
Proof.
  intros Hm Hr. unfold next_tok.
  (* the m<{ m%{ m{ entries need '<' '%' or '{' , which IDENT never contains: if one of
     them matched, m_ident could not have consumed all of s *)
  assert (forall p, In p [mo_liter; mo_map; mo_brace] -> m_lit p s = None) as Hl.
  { intros p Hp. destruct (m_lit p s) as [r'|] eqn:ML; [exfalso|reflexivity].
    apply m_lit_app in ML. subst s.
    cbn [In] in Hp. destruct Hp as [<-|[<-|[<-|[]]]];
      change mo_liter with [109; 60; 123] in *; change mo_map with [109; 37; 123] in *;
      change mo_brace with [109; 123] in *; cbn [app] in Hm;
      rewrite m_ident_stop in Hm by reflexivity; discriminate. }
  rewrite (Hl mo_liter) by (cbn; auto).
  rewrite (Hl mo_map) by (cbn; auto).
  rewrite (Hl mo_brace) by (cbn; auto).
  now rewrite Hm, Hr.
Qed.

Lemma m_lit_head_ne a p c r : a <> c -> m_lit (a :: p) (c :: r) = None.
Proof. intros H. cbn [m_lit]. destruct (Z.eqb_spec a c); [contradiction|reflexivity]. Qed.

Lemma next_tok_private c r : is_us c = true ->
  m_private (c :: r) = Some (c :: r, []) -> next_tok (c :: r) = Some (TPrivate (c :: r), []).
Proof.
  intros Hc Hm. unfold next_tok.
  assert (c = 95) as -> by (unfold is_us in Hc; now apply Z.eqb_eq in Hc).
  change mo_liter with [109; 60; 123]. change mo_map with [109; 37; 123]. change mo_brace with [109; 123].
  rewrite !m_lit_head_ne by lia.
  assert (m_ident (95 :: r) = None) as -> by reflexivity.
  now rewrite Hm.
Qed.

Lemma scan_one s t : s <> [] -> next_tok s = Some (t, []) -> scan s = Toks [t].
Proof.
  intros Hne Hn. unfold scan. destruct s as [|c r]; [contradiction|].
  cbn [length scan_fuel]. rewrite Hn. destruct (length r); reflexivity.
Qed.

(* the theorem with the recorded class excluded *)
Theorem name_is_one_token_partial s :
  ident_pattern s -> reserved s = false -> underscore_nonletter s = false ->
  scan s = Toks [name_tok s].
Proof.
  intros (c & w & suf & -> & Hc & Hw & Hs) Hr Hg.
  apply scan_one; [discriminate|].
  unfold name_tok. apply orb_true_iff in Hc as [Hc|Hc].
  - rewrite (alpha_not_us _ Hc).
    apply next_tok_name; [|assumption]. now apply m_ident_whole.
  - rewrite Hc. apply next_tok_private; [assumption|]. now apply m_private_whole.
Qed.

(* the full statement fails on the recorded class: `_1` matches the documented
   pattern, is not reserved, and is cut into `_` and a number *)
Theorem name_is_one_token_refuted :
  exists s, ident_pattern s /\ reserved s = false /\ scan s <> Toks [name_tok s].
Proof.
  exists [95; 49]. split.
  - exists 95, [49], []. repeat split; auto.
  - split; [reflexivity|]. vm_compute. discriminate.
Qed.

(* names that merely begin with a keyword are ordinary names *)
Corollary keyword_prefixed_name_is_one_token k c w suf :
  In k keywords -> is_word c = true -> forallb is_word w = true -> name_suffix suf ->
  reserved (k ++ c :: w ++ suf) = false ->
  scan (k ++ c :: w ++ suf) = Toks [TIdent (k ++ c :: w ++ suf)].
Proof.
  intros Hk Hc Hw Hs Hr.
  assert (exists a r, k = a :: r /\ is_alpha a = true /\ forallb is_word r = true) as (a & r & -> & Ha & Hrw).
  { cbn in Hk. repeat destruct Hk as [Hk|Hk]; try contradiction; subst k; eexists _, _; split; try reflexivity; split; reflexivity. }
  apply scan_one; [discriminate|].
  cbn [app] in *.
  apply next_tok_name; [|assumption].
  replace (r ++ c :: w ++ suf) with ((r ++ c :: w) ++ suf) by (now rewrite <- app_assoc).
  apply m_ident_whole; [assumption| |assumption].
  rewrite forallb_app. cbn [forallb]. now rewrite Hrw, Hc, Hw.
Qed.

(* after the quote of a symbol the same name is matched whole, reserved or not *)
Theorem symbol_name_whole_partial s :
  ident_pattern s -> underscore_nonletter s = false -> m_symbol_name s = Some (s, []).
Proof.
  intros (c & w & suf & -> & Hc & Hw & Hs) Hg. unfold m_symbol_name.
  apply orb_true_iff in Hc as [Hc|Hc].
  - now rewrite (m_ident_whole c w suf Hc Hw Hs).
  - assert (m_ident (c :: w ++ suf) = None) as -> by (unfold m_ident; now rewrite (us_not_alpha _ Hc)).
    now apply m_private_whole.
Qed.

(* a reserved word alone is the keyword token, never a name *)
Theorem reserved_is_keyword k : In k keywords -> scan k = Toks [TKw k].
Proof.
  intros Hk. cbn in Hk. repeat destruct Hk as [Hk|Hk]; try contradiction; subst k; reflexivity.
Qed.
