(* C16 — proofs about the buffer state machine of Lex/Refill.v. *)
From Coq Require Import List NArith Arith Bool Lia.
Import ListNotations.
From PanVerif Require Import Lex.Refill Lex.LayoutTok.

(* ------------------------------------------------------------------ *)
(* The reader and io.ReadAll.                                            *)

Lemma rd_read_spec req r :
  1 <= req -> well_formed_schedule (rd_sched r) -> rd_rest r <> [] ->
  fst (rd_read req r) ++ rd_rest (snd (rd_read req r)) = rd_rest r /\
  length (rd_rest (snd (rd_read req r))) < length (rd_rest r) /\
  well_formed_schedule (rd_sched (snd (rd_read req r))).
Proof.
  intros Hreq Hwf Hne. unfold rd_read. cbn [fst snd rd_rest rd_sched].
  set (want := match rd_sched r with [] => req | k :: _ => Nat.min k req end).
  assert (Hw : 1 <= want).
  { unfold want. destruct (rd_sched r) as [|k s] eqn:E; [exact Hreq|].
    inversion Hwf as [|? ? Hk _]; subst. apply Nat.min_glb; assumption. }
  split; [apply firstn_skipn|]. split.
  - rewrite skipn_length. destruct (rd_rest r) as [|c rest]; [congruence|]. cbn [length]. lia.
  - unfold well_formed_schedule in *. destruct (rd_sched r) as [|k s]; cbn [tl]; [constructor|].
    now inversion Hwf.
Qed.

Lemma read_all_drains reqsz :
  (forall n, 1 <= reqsz n) ->
  forall fuel acc r,
    well_formed_schedule (rd_sched r) -> length (rd_rest r) < fuel ->
    fst (read_all reqsz fuel acc r) = acc ++ rd_rest r /\
    rd_rest (snd (read_all reqsz fuel acc r)) = [].
Proof.
  intros Hreq. induction fuel as [|f IH]; intros acc r Hwf Hlen; [lia|].
  cbn [read_all]. destruct (rd_rest r) as [|c rest] eqn:E.
  - cbn [fst snd]. rewrite app_nil_r, E. split; reflexivity.
  - assert (Hne : rd_rest r <> []) by (rewrite E; discriminate).
    destruct (rd_read_spec (reqsz (length acc)) r (Hreq _) Hwf Hne) as (Happ & Hlt & Hwf').
    destruct (rd_read (reqsz (length acc)) r) as [bs r'] eqn:R. cbn [fst snd] in *.
    assert (Hlen' : length (rd_rest r') < f) by (try rewrite E in Hlt; try rewrite E in Hlen; cbn [length] in *; lia).
    destruct (IH (acc ++ bs) r' Hwf' Hlen') as (H1 & H2).
    split; [|exact H2]. rewrite H1, <- app_assoc, Happ, E. reflexivity.
Qed.

(* A lexer whose reader is drained and whose loaded flag is set. *)
Definition ready (l : lexer) : Prop := lx_loaded l = true /\ rd_rest (lx_rd l) = [].

Lemma readBufIfNeed_loads reqsz l :
  (forall n, 1 <= reqsz n) -> well_formed_schedule (rd_sched (lx_rd l)) -> lx_loaded l = false ->
  ready (readBufIfNeed reqsz l) /\
  lx_buf (readBufIfNeed reqsz l) = lx_buf l ++ rd_rest (lx_rd l).
Proof.
  intros Hreq Hwf Hl. unfold readBufIfNeed. rewrite Hl.
  destruct (read_all_drains reqsz Hreq (S (length (rd_rest (lx_rd l)))) [] (lx_rd l) Hwf (Nat.lt_succ_diag_r _))
    as (H1 & H2).
  destruct (read_all reqsz (S (length (rd_rest (lx_rd l)))) [] (lx_rd l)) as [bs r'].
  cbn [fst snd] in *. subst bs. unfold ready. cbn. repeat split; assumption.
Qed.

Lemma readBufIfNeed_loaded reqsz l : lx_loaded l = true -> readBufIfNeed reqsz l = l.
Proof. intros H. unfold readBufIfNeed. now rewrite H. Qed.

Lemma readBufIfNeed_idem reqsz l : readBufIfNeed reqsz (readBufIfNeed reqsz l) = readBufIfNeed reqsz l.
Proof.
  destruct (lx_loaded l) eqn:E.
  - rewrite (readBufIfNeed_loaded reqsz l E). exact (readBufIfNeed_loaded reqsz l E).
  - apply readBufIfNeed_loaded. unfold readBufIfNeed. rewrite E.
    destruct (read_all _ _ _ _). reflexivity.
Qed.

(* ------------------------------------------------------------------ *)
(* The lexer with a drained reader computes on its buffer alone.         *)

Section Sim.
  Variables (tok mode : Type) (L : lexspec tok mode) (reqsz : nat -> nat).
  Let refill := readBufIfNeed reqsz.

  Definition with_buf (l : lexer) (b : list byte) : lexer := mkLexer b (lx_loaded l) (lx_rd l).

  Lemma with_buf_self l : with_buf l (lx_buf l) = l.
  Proof. now destruct l. Qed.

  Lemma refill_with_buf l b : ready l -> refill (with_buf l b) = with_buf l b.
  Proof. intros [H _]. apply readBufIfNeed_loaded. exact H. Qed.

  Lemma skip_ws_loop_ready l : ready l -> forall fuel b,
    skip_ws_loop tok mode L refill fuel (with_buf l b) = with_buf l (skip_ws_b tok mode L fuel b).
  Proof.
    intros Hr. induction fuel as [|f IH]; intros b; cbn [skip_ws_loop skip_ws_b];
      rewrite refill_with_buf by exact Hr; [reflexivity|].
    cbn [with_buf lx_buf]. destruct (ls_ws L b) as [[|k]|]; try reflexivity.
    unfold consume. cbn [with_buf lx_buf lx_loaded lx_rd]. apply (IH (skipn (S k) b)).
  Qed.

  Lemma skipWhitespace_ready l b : ready l ->
    skipWhitespace tok mode L refill (with_buf l b) = with_buf l (skipWhitespace_b tok mode L b).
  Proof.
    intros Hr. unfold skipWhitespace, skipWhitespace_b, lx_avail. cbn [with_buf lx_buf lx_rd].
    destruct Hr as [Hl Hd]. rewrite Hd. cbn [length]. apply skip_ws_loop_ready. split; assumption.
  Qed.

  Lemma peek_types_ready l : ready l -> forall ts b,
    peek_types tok mode L refill ts (with_buf l b) =
    (with_buf l (fst (peek_b tok mode L ts b)), snd (peek_b tok mode L ts b)).
  Proof.
    intros Hr. induction ts as [|[t m] ts IH]; intros b; cbn [peek_types peek_b]; [reflexivity|].
    rewrite skipWhitespace_ready, refill_with_buf by exact Hr. cbn [with_buf lx_buf].
    destruct (m (skipWhitespace_b tok mode L b)); [reflexivity|]. apply IH.
  Qed.

  Lemma scan_ready l md b : ready l ->
    scan tok mode L refill md (with_buf l b) =
    (with_buf l (fst (scan_b tok mode L md b)), snd (scan_b tok mode L md b)).
  Proof.
    intros Hr. unfold scan, scan_b. rewrite peek_types_ready by exact Hr.
    destruct (peek_b tok mode L (ls_types L md) b) as [b' [[t n]|]]; cbn [fst snd with_buf lx_buf]; reflexivity.
  Qed.

  Lemma scan_n_ready l : ready l -> forall n md b,
    scan_n tok mode L refill n md (with_buf l b) = whole_n tok mode L n md b.
  Proof.
    intros Hr. induction n as [|n IH]; intros md b; cbn [scan_n whole_n]; [reflexivity|].
    rewrite scan_ready by exact Hr.
    destruct (scan_b tok mode L md b) as [b' [t lit| |]]; cbn [fst snd]; try reflexivity.
    f_equal. apply IH.
  Qed.

  (* the very first operation of a Scan is a refill *)
  Lemma skip_ws_loop_refill fuel l :
    skip_ws_loop tok mode L refill fuel (refill l) = skip_ws_loop tok mode L refill fuel l.
  Proof. destruct fuel; cbn [skip_ws_loop]; unfold refill; rewrite readBufIfNeed_idem; reflexivity. Qed.

  Lemma scan_n_first_refill n md l :
    ls_types L md <> [] -> lx_avail (refill l) = lx_avail l ->
    scan_n tok mode L refill n md (refill l) = scan_n tok mode L refill n md l.
  Proof.
    intros Hne Hav. destruct n as [|n]; [reflexivity|]. cbn [scan_n]. unfold scan.
    destruct (ls_types L md) as [|[t m] ts]; [congruence|]. cbn [peek_types].
    unfold skipWhitespace. rewrite Hav, skip_ws_loop_refill. reflexivity.
  Qed.

  Theorem buffered_equals_whole_spec :
    (forall n, 1 <= reqsz n) ->
    forall input schedule md n,
      well_formed_schedule schedule -> ls_types L md <> [] ->
      tokens_buffered_spec reqsz L schedule input md n = tokens_whole_spec L input md n.
  Proof.
    intros Hreq input schedule md n Hwf Hne. unfold tokens_buffered_spec, tokens_whole_spec.
    set (l0 := lx_init input schedule).
    destruct (readBufIfNeed_loads reqsz l0 Hreq Hwf eq_refl) as (Hr & Hb).
    cbn [l0 lx_init lx_buf lx_rd rd_rest app] in Hb.
    fold refill. rewrite <- (scan_n_first_refill n md l0 Hne).
    - fold refill in Hr, Hb. rewrite <- (with_buf_self (refill l0)), Hb. apply scan_n_ready. exact Hr.
    - fold refill in Hr, Hb. unfold lx_avail. rewrite Hb. destruct Hr as [_ Hd]. rewrite Hd. cbn. lia.
  Qed.
End Sim.

(* ------------------------------------------------------------------ *)
(* The single abstract matcher form.                                      *)

Theorem buffered_equals_whole :
  forall (tok : Type) (m : list byte -> option (nat * tok)) input schedule n,
    well_formed_schedule schedule ->
    tokens_buffered m schedule input n = tokens_whole m input n.
Proof.
  intros tok m input schedule n Hwf. unfold tokens_buffered, tokens_whole.
  assert (Hreq : forall k, 1 <= reqsz_default k) by (intros; unfold reqsz_default; lia).
  set (l0 := lx_init input schedule).
  destruct (readBufIfNeed_loads reqsz_default l0 Hreq Hwf eq_refl) as (Hr & Hb).
  cbn [l0 lx_init lx_buf lx_rd rd_rest app] in Hb.
  destruct n as [|n]; [reflexivity|]. cbn [m_stream m_whole].
  assert (G : forall n l, lx_loaded l = true ->
              m_stream tok m (readBufIfNeed reqsz_default) n l = m_whole tok m n (lx_buf l)).
  { clear. induction n as [|n IH]; intros l Hl; cbn [m_stream m_whole]; [reflexivity|].
    rewrite readBufIfNeed_loaded by exact Hl.
    destruct (m (lx_buf l)) as [[len t]|]; [|reflexivity].
    f_equal. rewrite IH by exact Hl. reflexivity. }
  rewrite Hb. destruct (m input) as [[len t]|]; [|reflexivity].
  f_equal. destruct Hr as [Hl _]. rewrite G by exact Hl. unfold consume. cbn [lx_buf]. now rewrite Hb.
Qed.

(* The model's choice of ReadAll request sizes is immaterial. *)
Theorem buffered_any_request_size :
  forall (tok : Type) (m : list byte -> option (nat * tok)) reqsz input schedule n,
    (forall k, 1 <= reqsz k) -> well_formed_schedule schedule ->
    m_stream tok m (readBufIfNeed reqsz) n (lx_init input schedule) = tokens_whole m input n.
Proof.
  intros tok m reqsz input schedule n Hreq Hwf. unfold tokens_whole.
  set (l0 := lx_init input schedule).
  destruct (readBufIfNeed_loads reqsz l0 Hreq Hwf eq_refl) as (Hr & Hb).
  cbn [l0 lx_init lx_buf lx_rd rd_rest app] in Hb.
  destruct n as [|n]; [reflexivity|]. cbn [m_stream m_whole].
  assert (G : forall n l, lx_loaded l = true ->
              m_stream tok m (readBufIfNeed reqsz) n l = m_whole tok m n (lx_buf l)).
  { clear - reqsz. induction n as [|n IH]; intros l Hl; cbn [m_stream m_whole]; [reflexivity|].
    rewrite readBufIfNeed_loaded by exact Hl.
    destruct (m (lx_buf l)) as [[len t]|]; [|reflexivity].
    f_equal. rewrite IH by exact Hl. reflexivity. }
  rewrite Hb. destruct (m input) as [[len t]|]; [|reflexivity].
  f_equal. destruct Hr as [Hl _]. rewrite G by exact Hl. unfold consume. cbn [lx_buf]. now rewrite Hb.
Qed.

(* ------------------------------------------------------------------ *)
(* Peek on the whole input = skip blanks once, first type that matches,   *)
(* for matchers that stay inside the buffer.                              *)

Section Spec.
  Variables (tok mode : Type) (L : lexspec tok mode).

  Lemma skip_ws_b_fixed : forall fuel b, length b < fuel ->
    match ls_ws L (skip_ws_b tok mode L fuel b) with Some (S _) => skip_ws_b tok mode L fuel b = [] | _ => True end.
  Proof.
    induction fuel as [|f IH]; intros b Hlen; [lia|]. cbn [skip_ws_b].
    destruct (ls_ws L b) as [[|k]|] eqn:E; try (rewrite E; exact I).
    destruct b as [|c b'].
    - rewrite skipn_nil. destruct f as [|f']; cbn [skip_ws_b]; [rewrite E; reflexivity|].
      rewrite E, skipn_nil.
      clear - E. induction f' as [|f'' IHf]; cbn [skip_ws_b]; [rewrite E; reflexivity|].
      rewrite E, skipn_nil. exact IHf.
    - apply IH. cbn [skipn]. pose proof (skipn_length k b'). cbn [length] in Hlen. lia.
  Qed.

  (* once blanks are skipped, skipping again changes nothing *)
  Lemma skipWhitespace_b_idem b :
    skipWhitespace_b tok mode L (skipWhitespace_b tok mode L b) = skipWhitespace_b tok mode L b.
  Proof.
    unfold skipWhitespace_b at 1 3.
    pose proof (skip_ws_b_fixed (S (length b + 0)) b ltac:(lia)) as H.
    fold (skipWhitespace_b tok mode L b) in H |- *.
    set (b' := skipWhitespace_b tok mode L b) in *.
    unfold skipWhitespace_b. cbn [skip_ws_b].
    destruct (ls_ws L b') as [[|k]|] eqn:E; try reflexivity.
    rewrite H in *. rewrite skipn_nil. cbn [length Nat.add].
    cbn [skip_ws_b]. reflexivity.
  Qed.

  Lemma peek_b_skipped : forall ts b,
    peek_b tok mode L ts (skipWhitespace_b tok mode L b) =
    (match ts with [] => skipWhitespace_b tok mode L b | _ => skipWhitespace_b tok mode L b end,
     first_match tok ts (skipWhitespace_b tok mode L b)).
  Proof.
    induction ts as [|[t m] ts IH]; intros b; cbn [peek_b first_match]; [reflexivity|].
    rewrite skipWhitespace_b_idem.
    destruct (m (skipWhitespace_b tok mode L b)); [reflexivity|].
    rewrite IH. destruct ts; reflexivity.
  Qed.

  Theorem whole_equals_spec : forall n md b,
    whole_n tok mode L n md b = spec_n tok mode L n md b.
  Proof.
    induction n as [|n IH]; intros md b; cbn [whole_n spec_n]; [reflexivity|].
    unfold scan_b. destruct (ls_types L md) as [|[t m] ts] eqn:E.
    - cbn [peek_b]. destruct b; reflexivity.
    - cbn [peek_b first_match]. set (b1 := skipWhitespace_b tok mode L b).
      destruct (m b1) as [k|] eqn:Em.
      + f_equal. apply IH.
      + unfold b1. rewrite peek_b_skipped. fold b1.
        assert (Hs : match ts with [] => b1 | _ :: _ => b1 end = b1) by (destruct ts; reflexivity).
        rewrite Hs. destruct (first_match tok ts b1) as [[t' k']|].
        * f_equal. apply IH.
        * destruct b1; reflexivity.
  Qed.
End Spec.

(* ------------------------------------------------------------------ *)
(* The ORIGINAL refill logic does not have the property.                  *)
(* (kept so that the defect stays documented, and is found again by       *)
(* ./check C16 should the repair be reverted)                             *)

(* a 3000-character string literal, reader handing out all it is asked for:
   the first Read brings 2048 bytes, no closing quote is in sight, no pattern
   matches -> UnknownTokenError, whereas the whole input is one string token *)
Theorem old_refuted :
  exists input schedule n, well_formed_schedule schedule /\
    tokens_buffered_old layout_m schedule input n <> tokens_whole layout_m input n.
Proof.
  exists (dq_lit (repeat 97%N 3000)), [], 2. split; [constructor|].
  vm_compute. intros H. discriminate H.
Qed.

(* a reader that returns one byte per call: the identifier abc comes out as a, bc *)
Theorem old_refuted_short_reads :
  exists input schedule n, well_formed_schedule schedule /\
    tokens_buffered_old layout_m schedule input n <> tokens_whole layout_m input n.
Proof.
  exists [97%N; 98%N; 99%N], [1; 1; 1], 3. split; [repeat constructor|].
  vm_compute. intros H. discriminate H.
Qed.

(* the same two inputs under the repaired logic *)
Example repaired_on_witnesses :
  tokens_buffered layout_m [] (dq_lit (repeat 97%N 3000)) 2 = tokens_whole layout_m (dq_lit (repeat 97%N 3000)) 2 /\
  tokens_buffered layout_m [1; 1; 1] [97%N; 98%N; 99%N] 3 = [MTok TIdent [97%N; 98%N; 99%N]; MEof].
Proof. split; vm_compute; reflexivity. Qed.
