(* C17 — how the lexer of parser/parser.go.y (as repaired by
   patches/15-literals-and-names.diff) cuts a run of identifier characters.

   simplexer tries the token types of tokenTypes() in order and takes the first
   whose anchored regex matches.  At a letter or '_' only these entries can match:
     METHOD_LITER  m<{     METHOD_MAP_LBRACE  m%{     METHOD_LBRACE  m{
     IDENT          [a-zA-Z][a-zA-Z0-9_]*[!?]?
     PRIVATE_IDENT  _+([a-zA-Z][a-zA-Z0-9_]*[!?]?)?
   (the keyword entries `if` ... `defer`, which stood before IDENT and matched any
   prefix, are gone; Lexer.Lex turns an IDENT whose text is exactly a reserved word
   into the keyword token).  Go's regexp is leftmost-first with greedy quantifiers;
   for these patterns that is the longest match, which is what the matchers compute.
   Definitions only. *)
From Coq Require Import ZArith List Bool String.
From PanVerif Require Import Lex.Literals.
Import ListNotations.
Local Open Scope list_scope.
Local Open Scope Z_scope.

Definition is_alpha (c : Z) : bool := between 65 c 90 || between 97 c 122.
Definition is_word (c : Z) : bool := is_alpha c || between 48 c 57 || is_us c.
Definition is_bangq (c : Z) : bool := (c =? 33) || (c =? 63).

Fixpoint span (p : Z -> bool) (l : list Z) : list Z * list Z :=
  match l with
  | [] => ([], [])
  | c :: r => if p c then let '(a, b) := span p r in (c :: a, b) else ([], l)
  end.

(* [a-zA-Z0-9_]*[!?]?  at the head of l: (matched, rest) *)
Definition m_tail (l : list Z) : list Z * list Z :=
  let '(w, r) := span is_word l in
  match r with
  | b :: r' => if is_bangq b then (w ++ [b], r') else (w, r)
  | [] => (w, [])
  end.

(* IDENT *)
Definition m_ident (l : list Z) : option (list Z * list Z) :=
  match l with
  | c :: r => if is_alpha c then let '(t, r') := m_tail r in Some (c :: t, r') else None
  | [] => None
  end.

(* PRIVATE_IDENT *)
Definition m_private (l : list Z) : option (list Z * list Z) :=
  let '(us, r) := span is_us l in
  match us with
  | [] => None
  | _ => match m_ident r with
         | Some (t, r') => Some (us ++ t, r')
         | None => Some (us, r)
         end
  end.

Fixpoint m_lit (p l : list Z) : option (list Z) :=       (* literal prefix p *)
  match p, l with
  | [], _ => Some l
  | a :: p', b :: l' => if a =? b then m_lit p' l' else None
  | _ :: _, [] => None
  end.

Inductive tok :=
| TKw (s : list Z)            (* IF ELSE RETURN YIELD RAISE DEFER *)
| TIdent (s : list Z)         (* IDENT *)
| TPrivate (s : list Z)       (* PRIVATE_IDENT *)
| TMethodOpen (s : list Z).   (* m<{  m%{  m{ *)

Definition keywords : list (list Z) :=
  map codes ["if"; "else"; "return"; "yield"; "raise"; "defer"]%string.
Definition reserved (s : list Z) : bool := existsb (list_eqb s) keywords.

Definition mo_liter : list Z := codes "m<{".     (* METHOD_LITER *)
Definition mo_map : list Z := codes "m%{".       (* METHOD_MAP_LBRACE *)
Definition mo_brace : list Z := codes "m{".      (* METHOD_LBRACE *)

(* first match in table order, then the keyword conversion of Lexer.Lex *)
Definition next_tok (l : list Z) : option (tok * list Z) :=
  match m_lit mo_liter l with Some r => Some (TMethodOpen mo_liter, r) | None =>
  match m_lit mo_map l with Some r => Some (TMethodOpen mo_map, r) | None =>
  match m_lit mo_brace l with Some r => Some (TMethodOpen mo_brace, r) | None =>
  match m_ident l with
  | Some (t, r) => Some (if reserved t then TKw t else TIdent t, r)
  | None =>
  match m_private l with
  | Some (t, r) => Some (TPrivate t, r)
  | None => None
  end end end end end.

Inductive scanres :=
| Toks (ts : list tok)                        (* the whole input was cut into these tokens *)
| Stuck (ts : list tok) (rest : list Z).      (* none of the entries above matches at rest *)

Fixpoint scan_fuel (fuel : nat) (l : list Z) : scanres :=
  match l with
  | [] => Toks []
  | _ =>
    match fuel with
    | O => Stuck [] l
    | S f =>
      match next_tok l with
      | Some (t, r) => match scan_fuel f r with
                       | Toks ts => Toks (t :: ts)
                       | Stuck ts r' => Stuck (t :: ts) r'
                       end
      | None => Stuck [] l
      end
    end
  end.
Definition scan (l : list Z) : scanres := scan_fuel (List.length l) l.

(* the token a name should be *)
Definition name_tok (s : list Z) : tok :=
  match s with
  | c :: _ => if is_us c then TPrivate s else TIdent s
  | [] => TIdent s
  end.

(* SYMBOL is '(IDENT | PRIVATE_IDENT | operator ...): what follows the quote *)
Definition m_symbol_name (l : list Z) : option (list Z * list Z) :=
  match m_ident l with
  | Some x => Some x
  | None => m_private l
  end.

(* documented pattern of docs/reference/variables.md: [a-zA-Z_][a-zA-Z0-9_]*[!?]? *)
Definition ident_pattern (s : list Z) : Prop :=
  exists c w suf, s = c :: w ++ suf /\ (is_alpha c || is_us c) = true /\
                  forallb is_word w = true /\
                  (suf = [] \/ exists b, suf = [b] /\ is_bangq b = true).
Definition ident_patternb (s : list Z) : bool :=
  match s with
  | c :: r => (is_alpha c || is_us c) && (match m_tail r with (_, []) => true | _ => false end)
  | [] => false
  end.

(* the recorded class (open finding): after the leading underscores comes a
   character that is not a letter — `_1`, `__9a`, `_?` *)
Definition underscore_nonletter (s : list Z) : bool :=
  let '(us, r) := span is_us s in
  match us, r with
  | _ :: _, c :: _ => negb (is_alpha c)
  | _, _ => false
  end.

(* correspondence: (index, name, var works, prop works, sym works, one ident token) *)
Definition ncase := (Z * spelling * bool * bool * bool * bool)%type.
Definition one_name (s : list Z) : bool :=
  match scan s with
  | Toks [TIdent t] => list_eqb t s
  | Toks [TPrivate t] => list_eqb t s
  | _ => false
  end.
Definition sym_whole (s : list Z) : bool :=
  match m_symbol_name s with
  | Some (t, []) => true
  | _ => false
  end.
Definition name_mismatches (cs : list ncase) : list (Z * bool * bool) :=
  flat_map (fun c => match c with (i, s, v, p, y, t) =>
     let l := sp_codes s in
     let o := one_name l in let q := sym_whole l in
     if Bool.eqb o v && Bool.eqb o p && Bool.eqb o t && Bool.eqb q y then nil
     else (i, o, q) :: nil end) cs.
