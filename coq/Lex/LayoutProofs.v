(* C16 — proofs about the layout and long-token matchers of Lex/LayoutTok.v. *)
From Coq Require Import List NArith Arith Bool Lia.
Import ListNotations.
From PanVerif Require Import Lex.Refill Lex.RefillProofs Lex.LayoutTok.

(* ------------------------------------------------------------------ *)
(* Character classes.                                                    *)

Ltac cc c :=
  unfold is_blank, is_nl, is_hash, is_add_chain, is_main_chain, is_bangq, is_idchar, is_alpha, is_digit, not_nl in *;
  repeat match goal with
         | |- context [N.eqb c ?k] => destruct (N.eqb_spec c k); subst; cbn in *
         | H : context [N.eqb c ?k] |- _ => destruct (N.eqb_spec c k); subst; cbn in *
         end;
  try congruence; try discriminate; auto.

Lemma blank_other c : is_blank c = true -> is_hash c = false /\ is_nl c = false.
Proof. intros H. cc c. Qed.

Lemma nl_other c : is_nl c = true -> is_blank c = false /\ is_hash c = false.
Proof. intros H. cc c. Qed.

Lemma hash_other c : is_hash c = true -> is_blank c = false /\ is_nl c = false /\ c = 35%N.
Proof. intros H. cc c. Qed.

Lemma main_not_add c : is_main_chain c = true -> is_add_chain c = false.
Proof. intros H. cc c. Qed.

Lemma alpha_other c : is_alpha c = true ->
  is_blank c = false /\ is_nl c = false /\ is_hash c = false /\ N.eqb c 34 = false /\ N.eqb c 96 = false.
Proof.
  unfold is_alpha, is_blank, is_nl, is_hash. intros H.
  assert (Hr : (65 <= c <= 90 \/ 97 <= c <= 122)%N).
  { apply orb_true_iff in H. destruct H as [H|H]; apply andb_true_iff in H; destruct H as [H1 H2];
      apply N.leb_le in H1; apply N.leb_le in H2; lia. }
  repeat split; repeat (apply orb_false_iff; split); apply N.eqb_neq; lia.
Qed.

(* ------------------------------------------------------------------ *)
(* List helpers.                                                         *)

Lemma skipn_length_app {A} (a b : list A) : skipn (length a) (a ++ b) = b.
Proof. induction a; cbn; auto. Qed.

Lemma firstn_length_app {A} (a b : list A) : firstn (length a) (a ++ b) = a.
Proof. induction a; cbn; congruence. Qed.

Lemma span_all p (a b : list byte) :
  Forall (fun c => p c = true) a -> match b with [] => True | c :: _ => p c = false end ->
  span p (a ++ b) = length a.
Proof.
  intros Ha Hb. induction Ha as [|c a Hc _ IH]; cbn.
  - destruct b as [|c b]; cbn; [reflexivity|]. now rewrite Hb.
  - now rewrite Hc, IH.
Qed.

(* ------------------------------------------------------------------ *)
(* Layout lines.                                                         *)

Lemma lines_blanks bl x : blanks bl ->
  lines PBlank (bl ++ x) = option_map (Nat.add (length bl)) (lines PBlank x).
Proof.
  intros Hb. induction Hb as [|c bl Hc _ IH]; cbn [app length].
  - destruct (lines PBlank x); reflexivity.
  - cbn [lines]. rewrite Hc, IH. destruct (lines PBlank x); reflexivity.
Qed.

Lemma lines_comment_body body x : no_nl body ->
  lines PComment (body ++ x) = option_map (Nat.add (length body)) (lines PComment x).
Proof.
  intros Hb. induction Hb as [|c body Hc _ IH]; cbn [app length].
  - destruct (lines PComment x); reflexivity.
  - cbn [lines]. rewrite Hc, IH. destruct (lines PComment x); reflexivity.
Qed.

Lemma lines_nl ph c x : is_nl c = true -> lines ph (c :: x) = Some (S (odef (lines PBlank x))).
Proof.
  intros H. destruct (nl_other c H) as [Hb Hh]. destruct ph; cbn [lines]; now rewrite ?Hb, ?Hh, H.
Qed.

Lemma lines_newline ph nl x : newline_text nl ->
  lines ph (nl ++ x) = Some (length nl + odef (lines PBlank x)).
Proof.
  intros [H|[H|H]]; subst; cbn [app length].
  - now rewrite lines_nl.
  - now rewrite lines_nl.
  - rewrite lines_nl by reflexivity. rewrite lines_nl by reflexivity. reflexivity.
Qed.

Lemma lines_line l x : layout_line l ->
  lines PBlank (l ++ x) = Some (length l + odef (lines PBlank x)).
Proof.
  intros [bl cm nl Hbl Hcm Hnl]. rewrite <- !app_assoc, lines_blanks by exact Hbl.
  destruct Hcm as [->|(body & -> & Hbody)].
  - cbn [app]. rewrite lines_newline by exact Hnl. cbn [option_map]. rewrite !app_length. cbn [length]. f_equal. lia.
  - cbn [app lines]. assert (Hh : is_hash 35%N = true) by reflexivity. assert (Hb : is_blank 35%N = false) by reflexivity.
    rewrite Hb, Hh, lines_comment_body by exact Hbody.
    rewrite lines_newline by exact Hnl. cbn [option_map]. rewrite !app_length. cbn [length]. rewrite app_length. f_equal. lia.
Qed.

Lemma lines_padding p x : padding p ->
  lines PBlank (p ++ x) = Some (length p + odef (lines PBlank x)).
Proof.
  intros Hp. induction Hp as [l Hl|l p Hl _ IH].
  - now apply lines_line.
  - rewrite <- app_assoc, lines_line by exact Hl. rewrite IH. cbn [odef]. rewrite app_length. f_equal. lia.
Qed.

Lemma lines_token_start rest : token_start rest -> lines PBlank rest = None.
Proof.
  destruct rest as [|c r]; [reflexivity|]. intros (Hb & Hn & Hh). cbn [lines]. now rewrite Hb, Hh, Hn.
Qed.

Lemma lines_tail tl rest : blanks tl -> token_start rest -> lines PBlank (tl ++ rest) = None.
Proof. intros Hb Hs. rewrite lines_blanks by exact Hb. now rewrite lines_token_start. Qed.

Lemma token_start_not_blank rest : token_start rest ->
  match rest with [] => True | c :: _ => is_blank c = false end.
Proof. destruct rest; [auto|]. now intros (H & _). Qed.

(* ------------------------------------------------------------------ *)
(* RET and the multiline chains on padded text.                          *)

Lemma m_ret_padding p tl rest : padding p -> blanks tl -> token_start rest ->
  m_ret (p ++ tl ++ rest) = Some (length p).
Proof.
  intros Hp Hb Hs. unfold m_ret. rewrite lines_padding by exact Hp.
  rewrite lines_tail by assumption. cbn [odef]. now rewrite Nat.add_0_r.
Qed.

Lemma m_chain_padding cls p tl rest : padding p -> blanks tl -> token_start rest ->
  m_chain cls (p ++ tl ++ rest) =
  match rest with
  | bar :: c :: _ => if N.eqb bar 124 && cls c then Some (length p + length tl + 2) else None
  | _ => None
  end.
Proof.
  intros Hp Hb Hs. unfold m_chain. rewrite lines_padding by exact Hp.
  rewrite lines_tail by assumption. cbn [odef]. rewrite Nat.add_0_r, skipn_length_app.
  rewrite (span_all is_blank tl rest Hb (token_start_not_blank rest Hs)), skipn_length_app.
  reflexivity.
Qed.

Lemma m_chain_no_chain cls rest :
  (cls = is_add_chain \/ cls = is_main_chain) -> no_chain rest ->
  match rest with
  | bar :: c :: _ => if N.eqb bar 124 && cls c then Some 0 else None
  | _ => None
  end = None.
Proof.
  intros Hc Hn. destruct rest as [|bar [|c r]]; try reflexivity. cbn in Hn.
  destruct (N.eqb_spec bar 124) as [E|E]; [|reflexivity]. destruct (Hn E) as [Ha Hm].
  destruct Hc; subst cls; cbn [andb]; now rewrite ?Ha, ?Hm.
Qed.

(* a run of blank lines / comment lines / surrounding blanks of any size at a
   line-break position is exactly one RET: the three layout patterns, tried in
   table order, give RET with the whole padding as its text, and what follows
   the indentation is not a layout token. *)
Theorem ret_absorbs_padding p tl rest :
  padding p -> blanks tl -> token_start rest -> no_chain rest ->
  layout_token (p ++ tl ++ rest) = Some (TRet, length p) /\
  layout_token rest = None.
Proof.
  intros Hp Hb Hs Hn. unfold layout_token. cbn [first_match]. split.
  - rewrite !m_chain_padding by assumption. rewrite m_ret_padding by assumption.
    destruct rest as [|bar [|c r]]; try reflexivity. cbn in Hn.
    destruct (N.eqb_spec bar 124) as [E|E]; [|reflexivity]. destruct (Hn E) as [Ha Hm].
    cbn [andb]. now rewrite Ha, Hm.
  - unfold m_chain, m_ret. rewrite lines_token_start by exact Hs.
    destruct rest as [|c r]; [reflexivity|]. destruct Hs as (_ & _ & Hh). now rewrite Hh.
Qed.

(* followed by the bar and a chain character the whole run, the indentation and
   the two characters are one multiline-chain token *)
Theorem chain_absorbs_padding p tl c rest :
  padding p -> blanks tl ->
  (is_add_chain c = true ->
     layout_token (p ++ tl ++ 124%N :: c :: rest) = Some (TMlAdd, length p + length tl + 2)) /\
  (is_main_chain c = true ->
     layout_token (p ++ tl ++ 124%N :: c :: rest) = Some (TMlMain, length p + length tl + 2)).
Proof.
  intros Hp Hb. assert (Hs : token_start (124%N :: c :: rest)) by (cbn; auto).
  unfold layout_token. cbn [first_match]. rewrite !m_chain_padding by assumption.
  cbn [N.eqb Pos.eqb andb]. split; intros Hc.
  - now rewrite Hc.
  - now rewrite (main_not_add c Hc), Hc.
Qed.

(* ------------------------------------------------------------------ *)
(* The same at the level of the token stream (reduced table, blanks      *)
(* skipped by the whitespace type).                                      *)

Notation spec := (spec_n ltok unit layout_spec).
Notation skipws := (skipWhitespace_b ltok unit layout_spec).

Definition head_not_blank (z : list byte) : Prop :=
  match z with [] => True | c :: _ => is_blank c = false end.

Lemma skip_ws_blanks : forall tl z fuel, blanks tl -> head_not_blank z -> length tl < fuel ->
  skip_ws_b ltok unit layout_spec fuel (tl ++ z) = z.
Proof.
  induction tl as [|c tl IH]; intros z fuel Hb Hz Hf; (destruct fuel as [|f]; [cbn in Hf; lia|]).
  - cbn [app skip_ws_b ls_ws layout_spec]. unfold m_ws. destruct z as [|d z]; [reflexivity|].
    cbn in Hz. now rewrite Hz.
  - inversion Hb as [|? ? Hc Hb']; subst. cbn [app skip_ws_b ls_ws layout_spec]. unfold m_ws at 1.
    rewrite Hc. cbn [skipn]. apply IH; auto. cbn in Hf. lia.
Qed.

Lemma skipws_blanks tl z : blanks tl -> head_not_blank z -> skipws (tl ++ z) = z.
Proof.
  intros Hb Hz. unfold skipWhitespace_b. apply skip_ws_blanks; auto. rewrite app_length. lia.
Qed.

Lemma spec_step n b :
  spec (S n) tt b =
  let b' := skipws b in
  match first_match ltok layout_types b' with
  | Some (t, m) => STok t (firstn m b') :: spec n tt (skipn m b')
  | None => [match b' with [] => SEof | _ :: _ => SErr end]
  end.
Proof. reflexivity. Qed.

Lemma spec_skip_blanks n tl rest : blanks tl -> token_start rest ->
  spec n tt (tl ++ rest) = spec n tt rest.
Proof.
  intros Hb Hs. destruct n as [|n]; [reflexivity|]. rewrite !spec_step.
  pose proof (token_start_not_blank rest Hs) as Hz.
  rewrite (skipws_blanks tl rest Hb Hz). pose proof (skipws_blanks [] rest (Forall_nil _) Hz) as E. cbn [app] in E. rewrite E. reflexivity.
Qed.

Definition starts_line (p : list byte) : Prop :=
  match p with [] => False | c :: _ => is_hash c = true \/ is_nl c = true end.

Lemma line_split l : layout_line l ->
  exists bl l', l = bl ++ l' /\ blanks bl /\ layout_line l' /\ starts_line l'.
Proof.
  intros [bl cm nl Hbl Hcm Hnl]. exists bl, (cm ++ nl). repeat split; auto.
  - change (cm ++ nl) with ([] ++ cm ++ nl). constructor; auto. constructor.
  - destruct Hcm as [->|(body & -> & _)]; [|left; reflexivity].
    destruct Hnl as [->|[->| ->]]; right; reflexivity.
Qed.

Lemma starts_line_app p q : starts_line p -> starts_line (p ++ q).
Proof. destruct p; cbn; auto. intros []. Qed.

Lemma padding_split p : padding p ->
  exists bl p', p = bl ++ p' /\ blanks bl /\ padding p' /\ starts_line p'.
Proof.
  intros Hp. destruct Hp as [l Hl|l p Hl Hp]; destruct (line_split l Hl) as (bl & l' & -> & Hb & Hl' & Hs).
  - exists bl, l'. repeat split; auto. now constructor.
  - exists bl, (l' ++ p). rewrite <- app_assoc. repeat split; auto.
    + now apply pad_more.
    + now apply starts_line_app.
Qed.

Lemma starts_line_heads p y : starts_line p ->
  m_bq (p ++ y) = None /\ m_head (p ++ y) = None /\ m_dq (p ++ y) = None /\ head_not_blank (p ++ y).
Proof.
  destruct p as [|c p]; [intros []|]. cbn [starts_line app]. unfold m_bq, m_head, m_dq, head_not_blank.
  intros [H|H].
  - destruct (hash_other c H) as (Hb & _ & ->). auto.
  - destruct (nl_other c H) as (Hb & _). repeat split; auto; cc c.
Qed.

Lemma first_match_padding p tl rest :
  padding p -> starts_line p -> blanks tl -> token_start rest -> no_chain rest ->
  first_match ltok layout_types (p ++ tl ++ rest) = Some (TRet, length p).
Proof.
  intros Hp Hsl Hb Hs Hn. destruct (starts_line_heads p (tl ++ rest) Hsl) as (H1 & H2 & H3 & _).
  unfold layout_types. cbn [first_match]. rewrite H1, H2, H3.
  destruct (ret_absorbs_padding p tl rest Hp Hb Hs Hn) as [H _]. unfold layout_token in H. cbn [first_match] in H.
  destruct (m_chain is_add_chain (p ++ tl ++ rest)); [exact H|].
  destruct (m_chain is_main_chain (p ++ tl ++ rest)); [exact H|].
  destruct (m_ret (p ++ tl ++ rest)); [exact H|discriminate H].
Qed.

(* the token stream of padded text: one RET (its text is the padding without
   the blanks in front of it, which the whitespace type eats), then the stream of
   what follows, whatever the size of the padding *)
Theorem padding_stream n p tl rest :
  padding p -> blanks tl -> token_start rest -> no_chain rest ->
  exists bl lit, blanks bl /\ p = bl ++ lit /\
    spec (S n) tt (p ++ tl ++ rest) = STok TRet lit :: spec n tt rest.
Proof.
  intros Hp Hb Hs Hn. destruct (padding_split p Hp) as (bl & p' & -> & Hbl & Hp' & Hsl).
  exists bl, p'. repeat split; auto. rewrite spec_step. cbv zeta.
  destruct (starts_line_heads p' (tl ++ rest) Hsl) as (_ & _ & _ & Hz).
  rewrite <- app_assoc, (skipws_blanks bl _ Hbl Hz).
  rewrite first_match_padding by assumption.
  rewrite firstn_length_app, skipn_length_app. f_equal. now apply spec_skip_blanks.
Qed.

Definition strip (r : scanres ltok) : scanres ltok :=
  match r with STok t _ => STok t [] | SErr => SErr | SEof => SEof end.

(* two paddings of different sizes at the same place: same token stream up to the text of the RET *)
Theorem padding_size_irrelevant n p1 tl1 p2 tl2 rest :
  padding p1 -> blanks tl1 -> padding p2 -> blanks tl2 -> token_start rest -> no_chain rest ->
  map strip (spec n tt (p1 ++ tl1 ++ rest)) = map strip (spec n tt (p2 ++ tl2 ++ rest)).
Proof.
  intros H1 B1 H2 B2 Hs Hn. destruct n as [|n]; [reflexivity|].
  destruct (padding_stream n p1 tl1 rest H1 B1 Hs Hn) as (? & ? & _ & _ & ->).
  destruct (padding_stream n p2 tl2 rest H2 B2 Hs Hn) as (? & ? & _ & _ & ->).
  reflexivity.
Qed.

(* ------------------------------------------------------------------ *)
(* Unbounded tokens: the match is the whole literal, whatever its length. *)

Lemma dq_body_full body rest :
  Forall (fun c => c <> 34%N /\ is_nl c = false /\ is_hash c = false) body -> last body 0%N <> 92%N ->
  dq_body (body ++ 34%N :: rest) = Some (S (length body)) /\ head_body (body ++ 34%N :: rest) = None.
Proof.
  induction body as [|c r IH]; intros HF HL; [split; reflexivity|].
  inversion HF as [|? ? (Hq & Hn & Hh) HF']; subst.
  cbn [app dq_body head_body length]. apply N.eqb_neq in Hq. rewrite Hq, Hn, Hh.
  destruct (N.eqb_spec c 92) as [->|Hc].
  - destruct r as [|d r']; [cbn in HL; congruence|].
    inversion HF' as [|? ? (Hdq & _) _]; subst. apply N.eqb_neq in Hdq. cbn [app]. rewrite Hdq.
    destruct (IH HF') as [E1 E2]; [exact HL|]. cbn [app] in E1, E2. rewrite E1, E2. split; reflexivity.
  - destruct (IH HF') as [E1 E2].
    + destruct r; [cbn; discriminate|exact HL].
    + rewrite E1, E2. split; reflexivity.
Qed.

Lemma bq_body_full body rest :
  Forall (fun c => c <> 96%N) body -> last body 0%N <> 92%N ->
  bq_body (body ++ 96%N :: rest) = Some (S (length body)).
Proof.
  induction body as [|c r IH]; intros HF HL; [reflexivity|].
  inversion HF as [|? ? Hq HF']; subst.
  cbn [app bq_body length]. apply N.eqb_neq in Hq. rewrite Hq.
  destruct (N.eqb_spec c 92) as [->|Hc].
  - destruct r as [|d r']; [cbn in HL; congruence|].
    inversion HF' as [|? ? Hdq _]; subst. apply N.eqb_neq in Hdq. cbn [app]. rewrite Hdq.
    pose proof (IH HF' HL) as E. cbn [app] in E. rewrite E. reflexivity.
  - rewrite IH; auto. destruct r; [cbn; discriminate|exact HL].
Qed.

Theorem long_dq_full_text body rest : dq_plain body ->
  first_match ltok layout_types (dq_lit body ++ rest) = Some (TDq, length (dq_lit body)).
Proof.
  intros [HF HL]. unfold dq_lit. cbn [app]. rewrite <- app_assoc. cbn [app].
  destruct (dq_body_full body rest HF HL) as [E1 E2].
  unfold layout_types. cbn [first_match]. unfold m_bq, m_head, m_dq. cbn [N.eqb Pos.eqb].
  unfold byte in *. rewrite E1, E2. cbn [option_map length]. rewrite app_length. cbn [length]. repeat f_equal. lia.
Qed.

Theorem long_bq_full_text body rest : bq_plain body ->
  first_match ltok layout_types (bq_lit body ++ rest) = Some (TBackquote, length (bq_lit body)).
Proof.
  intros [HF HL]. unfold bq_lit. cbn [app]. rewrite <- app_assoc. cbn [app].
  unfold layout_types. cbn [first_match]. unfold m_bq. cbn [N.eqb Pos.eqb].
  pose proof (bq_body_full body rest HF HL) as E. unfold byte in *. rewrite E. cbn [option_map length]. rewrite app_length. cbn [length].
  repeat f_equal. lia.
Qed.

Lemma bangq_not_idchar c : is_bangq c = true -> is_idchar c = false.
Proof. intros H. unfold is_bangq in H. destruct (N.eqb_spec c 33); [subst; reflexivity|]. destruct (N.eqb_spec c 63); [subst; reflexivity|discriminate]. Qed.

Lemma m_ident_full c body rest :
  is_alpha c = true -> Forall (fun d => is_idchar d = true) body -> ident_end rest ->
  m_ident (c :: body ++ rest) = Some (S (length body)).
Proof.
  intros Hc Hb He. unfold m_ident. rewrite Hc.
  assert (Hr : match rest with [] => True | d :: _ => is_idchar d = false end) by (destruct rest; [auto|apply He]).
  rewrite (span_all is_idchar body rest Hb Hr), skipn_length_app.
  destruct rest as [|d rest]; [now rewrite Nat.add_0_r|]. destruct He as [_ Hq]. now rewrite Hq, Nat.add_0_r.
Qed.

Lemma m_ident_full_suffix c body s rest :
  is_alpha c = true -> Forall (fun d => is_idchar d = true) body -> is_bangq s = true ->
  m_ident (c :: body ++ s :: rest) = Some (S (length body + 1)).
Proof.
  intros Hc Hb Hs. unfold m_ident. rewrite Hc.
  rewrite (span_all is_idchar body (s :: rest) Hb (bangq_not_idchar s Hs)), skipn_length_app. now rewrite Hs.
Qed.

Lemma alpha_first_ident c r :
  is_alpha c = true ->
  first_match ltok layout_types (c :: r) = match m_ident (c :: r) with Some n => Some (TIdent, n) | None => first_match ltok [(TPrivate, m_private)] (c :: r) end.
Proof.
  intros Hc. destruct (alpha_other c Hc) as (Hb & Hn & Hh & H34 & H96).
  unfold layout_types. cbn [first_match]. unfold m_bq, m_head, m_dq, m_chain, m_ret. cbn [lines].
  rewrite H34, H96, Hb, Hn, Hh. reflexivity.
Qed.

Theorem long_ident_full_text c body rest :
  is_alpha c = true -> Forall (fun d => is_idchar d = true) body -> ident_end rest ->
  first_match ltok layout_types ((c :: body) ++ rest) = Some (TIdent, length (c :: body)).
Proof.
  intros Hc Hb He. cbn [app]. rewrite alpha_first_ident by exact Hc. now rewrite m_ident_full.
Qed.

Theorem long_ident_suffix_full_text c body s rest :
  is_alpha c = true -> Forall (fun d => is_idchar d = true) body -> is_bangq s = true ->
  first_match ltok layout_types ((c :: body ++ [s]) ++ rest) = Some (TIdent, length (c :: body ++ [s])).
Proof.
  intros Hc Hb Hs. cbn [app]. rewrite <- app_assoc. cbn [app]. rewrite alpha_first_ident by exact Hc.
  rewrite m_ident_full_suffix by assumption. cbn [length]. now rewrite app_length.
Qed.

(* a comment line of any length is wholly inside one RET ... *)
Theorem long_comment_full_text body nl tl rest :
  no_nl body -> newline_text nl -> blanks tl -> token_start rest -> no_chain rest ->
  first_match ltok layout_types ((comment_lit body ++ nl) ++ tl ++ rest)
  = Some (TRet, length (comment_lit body ++ nl)).
Proof.
  intros Hb Hnl Htl Hs Hn. apply first_match_padding; auto.
  - apply pad_one. change (comment_lit body ++ nl) with ([] ++ comment_lit body ++ nl).
    constructor; auto; [constructor|]. right. exists body. auto.
  - left. reflexivity.
Qed.

(* ... and so is a comment on the last line, which no line end follows *)
Theorem long_final_comment_full_text body :
  no_nl body -> first_match ltok layout_types (comment_lit body) = Some (TRet, length (comment_lit body)).
Proof.
  intros Hb. unfold comment_lit, layout_types. cbn [first_match]. unfold m_bq, m_head, m_dq, m_chain, m_ret.
  cbn [N.eqb Pos.eqb lines is_blank is_hash orb].
  pose proof (lines_comment_body body [] Hb) as E. rewrite app_nil_r in E. cbn [lines option_map] in E.
  rewrite E. cbn [option_map]. f_equal. f_equal. cbn [length]. f_equal.
  pose proof (span_all not_nl body [] ) as S0. rewrite app_nil_r in S0. apply S0; auto.
  unfold no_nl in Hb. eapply Forall_impl; [|exact Hb]. intros a Ha. unfold not_nl. now rewrite Ha.
Qed.

(* ------------------------------------------------------------------ *)
(* Padding size and reader chunking together, for the buffered lexer.    *)

Theorem padding_and_chunking_irrelevant n p1 tl1 s1 p2 tl2 s2 rest :
  padding p1 -> blanks tl1 -> padding p2 -> blanks tl2 -> token_start rest -> no_chain rest ->
  well_formed_schedule s1 -> well_formed_schedule s2 ->
  map strip (tokens_buffered_spec reqsz_default layout_spec s1 (p1 ++ tl1 ++ rest) tt n) =
  map strip (tokens_buffered_spec reqsz_default layout_spec s2 (p2 ++ tl2 ++ rest) tt n).
Proof.
  intros H1 B1 H2 B2 Hs Hn W1 W2.
  assert (Hreq : forall k, 1 <= reqsz_default k) by (intros; unfold reqsz_default; lia).
  assert (Hne : ls_types layout_spec tt <> []) by discriminate.
  rewrite !(buffered_equals_whole_spec ltok unit layout_spec reqsz_default Hreq) by assumption.
  unfold tokens_whole_spec. rewrite !whole_equals_spec.
  now apply padding_size_irrelevant.
Qed.
