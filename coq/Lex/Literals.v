(* C17 — denotation of literal spellings, following parser/parser.go.y as repaired
   by patches/15-literals-and-names.diff.

   A spelling is the list of its byte codes (list Z); [lit_denote] takes a Coq
   string.  The well-formedness tests mirror the token regexes of tokenTypes()
   (EXP_FLOAT, FLOAT, HEX_INT, OCT_INT, BIN_INT, EXP_INT, INT, DOUBLEQUOTE_STR) for a
   spelling that is matched as a whole; the value functions mirror the grammar
   actions (strings.Replace "_" ; strconv.ParseInt / ParseFloat / Unquote ;
   parseExpInt) with every conversion error turned into a rejection.

   Definitions only (the one proof term below is the validity witness that Flocq's
   own Bdiv carries, taken from Bdiv_correct_aux); theorems are in LitProofs.v. *)
From Coq Require Import ZArith List Bool String Ascii.
From Flocq Require Import Core.Zaux Core.Raux Core.Defs
     IEEE754.BinarySingleNaN IEEE754.Binary IEEE754.Bits.
From PanVerif Require Import Base.Int64.
Import ListNotations.
Local Open Scope list_scope.
Local Open Scope Z_scope.

Definition codes (s : string) : list Z :=
  map (fun c => Z.of_N (N_of_ascii c)) (list_ascii_of_string s).

Inductive lres :=
| LInt (z : Z)              (* an Int with this value *)
| LFloat (bits : Z)         (* a Float with this IEEE-754 binary64 bit pattern *)
| LStr (bytes : list Z)     (* a Str with exactly these bytes *)
| LReject                   (* the literal is refused with an error *)
| LNotLit.                  (* the spelling is not one literal of a modelled form *)

(* ---------- characters ---------- *)
Definition between (lo c hi : Z) : bool := (lo <=? c) && (c <=? hi).
Definition is_us (c : Z) : bool := c =? 95.                      (* _ *)

(* value of a digit character 0-9 a-f A-F; 99 for anything else *)
Definition dval (c : Z) : Z :=
  if between 48 c 57 then c - 48
  else if between 97 c 102 then c - 87
  else if between 65 c 70 then c - 55
  else 99.
Definition is_digit (base c : Z) : bool := dval c <? base.

(* ---------- digit strings with separators ---------- *)
(* ([d][d_]*[d]|[d]+) : non-empty, digits and '_' only, first and last are digits *)
Definition sep_ok (base : Z) (l : list Z) : bool :=
  match l with
  | [] => false
  | c :: _ => is_digit base c && is_digit base (last l 0)
              && forallb (fun c => is_digit base c || is_us c) l
  end.
Definition plain_ok (base : Z) (l : list Z) : bool :=             (* [d]+ *)
  match l with [] => false | _ => forallb (is_digit base) l end.

Definition strip_us (l : list Z) : list Z := filter (fun c => negb (is_us c)) l.
Definition digits_of (l : list Z) : list Z := map dval (strip_us l).

(* strconv.ParseInt accumulates n*base + d *)
Definition horner (base : Z) (ds : list Z) : Z :=
  fold_left (fun acc d => acc * base + d) ds 0.

Definition int_result (v : Z) : lres := if in64b v then LInt v else LReject.

(* INT / HEX_INT / OCT_INT / BIN_INT; l is the spelling after the 0x/0o/0b prefix *)
Definition int_denote (base : Z) (l : list Z) : lres :=
  if sep_ok base l then int_result (horner base (digits_of l)) else LNotLit.

(* ---------- exponent forms ---------- *)
(* 10^k by repeated squaring (Z.pow multiplies k times); pow10_spec in LitProofs.v *)
Fixpoint pow_pos_sq (b : Z) (p : positive) : Z :=
  match p with
  | xH => b
  | xO q => let r := pow_pos_sq b q in r * r
  | xI q => let r := pow_pos_sq b q in b * (r * r)
  end.
Definition pow10 (k : Z) : Z :=
  match k with Z0 => 1 | Zpos p => pow_pos_sq 10 p | Zneg _ => 0 end.

(* parseExpInt: mantissa * 10^k exactly; a negative exponent divides and drops the
   fraction (`100e-2 == 1`, `1e-3 == 0`, kept from the unrepaired code and asserted
   by the baseline test TestIntLiteralExpr); outside int64 is refused. *)
Definition expint_value (m k : Z) : Z :=
  if 0 <=? k then m * pow10 k else m / pow10 (- k).
Definition expint (m k : Z) : lres := int_result (expint_value m k).

(* -?[0-9]+ *)
Definition exp_of (l : list Z) : option Z :=
  match l with
  | 45 :: r => if plain_ok 10 r then Some (- horner 10 (map dval r)) else None
  | _ => if plain_ok 10 l then Some (horner 10 (map dval l)) else None
  end.

Fixpoint split_at (p : Z -> bool) (l : list Z) : option (list Z * list Z) :=
  match l with
  | [] => None
  | c :: r => if p c then Some ([], r)
              else match split_at p r with
                   | Some (a, b) => Some (c :: a, b)
                   | None => None
                   end
  end.
Definition is_e (c : Z) : bool := (c =? 101) || (c =? 69).
Definition is_dot (c : Z) : bool := c =? 46.

Definition expint_denote (ms es : list Z) : lres :=
  if sep_ok 10 ms then
    match exp_of es with
    | Some k => expint (horner 10 (digits_of ms)) k
    | None => LNotLit
    end
  else LNotLit.

(* ---------- floats ---------- *)
Inductive fres := FVal (f : binary64) | FReject.

(* n/d rounded once, to nearest even, by Flocq's division core on the integer
   mantissas n*2^0 and d*2^0 (the same two steps as Flocq's Bdiv, but on unbounded
   mantissas, so no operand is rounded first). *)
Definition round_ratio (n d : positive) : SpecFloat.spec_float :=
  let '(mz, ez, lz) := SpecFloat.SFdiv_core_binary 53 1024 (Zpos n) 0 (Zpos d) 0 in
  BinarySingleNaN.binary_round_aux 53 1024 mode_NE false mz ez lz.

Definition round_ratio_valid (n d : positive) :
  SpecFloat.valid_binary 53 1024 (round_ratio n d) = true :=
  proj1 (BinarySingleNaN.Bdiv_correct_aux 53 1024 eq_refl eq_refl mode_NE false n 0 false d 0).

(* a finite result is the float; infinity is strconv's ErrRange, refused *)
Definition sf_to_fres (z : SpecFloat.spec_float) :
  SpecFloat.valid_binary 53 1024 z = true -> fres :=
  match z as z0 return SpecFloat.valid_binary 53 1024 z0 = true -> fres with
  | SpecFloat.S754_finite s m e => fun H => FVal (B754_finite 53 1024 s m e H)
  | SpecFloat.S754_zero s => fun _ => FVal (B754_zero 53 1024 s)
  | _ => fun _ => FReject
  end.

(* the decimal m * 10^k  (m >= 0) *)
Definition dec_to_float (m k : Z) : fres :=
  match (if 0 <=? k then (m * pow10 k, 1) else (m, pow10 (- k))) with
  | (Zpos n, Zpos d) => sf_to_fres (round_ratio n d) (round_ratio_valid n d)
  | (Z0, _) => FVal (B754_zero 53 1024 false)
  | _ => FReject
  end.

Definition float_result (r : fres) : lres :=
  match r with FVal f => LFloat (bits_of_b64 f) | FReject => LReject end.

(* ip '.' fp [ (e|E) -?digits ] ; ip may be empty *)
Definition float_denote (ip rest : list Z) : lres :=
  let '(fp, ex) := match split_at is_e rest with
                   | Some (fp, es) => (fp, exp_of es)
                   | None => (rest, Some 0)
                   end in
  if (match ip with [] => true | _ => sep_ok 10 ip end) && sep_ok 10 fp then
    match ex with
    | Some e =>
        let fd := digits_of fp in
        float_result (dec_to_float (horner 10 ((digits_of ip ++ fd)%list)) (e - Z.of_nat (List.length fd)))
    | None => LNotLit
    end
  else LNotLit.

(* ---------- double-quoted strings: strconv.Unquote ---------- *)
Definition hexv (l : list Z) : option Z :=
  if forallb (is_digit 16) l then Some (horner 16 (map dval l)) else None.

(* utf8.AppendRune for a valid rune *)
Definition utf8_enc (r : Z) : list Z :=
  if r <? 128 then [r]
  else if r <? 2048 then [192 + r / 64; 128 + r mod 64]
  else if r <? 65536 then [224 + r / 4096; 128 + (r / 64) mod 64; 128 + r mod 64]
  else [240 + r / 262144; 128 + (r / 4096) mod 64; 128 + (r / 64) mod 64; 128 + r mod 64].
Definition valid_rune (r : Z) : bool :=
  (between 0 r 55295) || (between 57344 r 1114111).
Definition rune_out (h : option Z) (rest : list Z) : option (list Z * list Z) :=
  match h with
  | Some r => if valid_rune r then Some (utf8_enc r, rest) else None
  | None => None
  end.

(* one item at the head of a string body: (bytes produced, remaining body) *)
Definition simple_escape (c : Z) : option Z :=
  if c =? 97 then Some 7          (* \a *)
  else if c =? 98 then Some 8     (* \b *)
  else if c =? 102 then Some 12   (* \f *)
  else if c =? 110 then Some 10   (* \n *)
  else if c =? 114 then Some 13   (* \r *)
  else if c =? 116 then Some 9    (* \t *)
  else if c =? 118 then Some 11   (* \v *)
  else if c =? 92 then Some 92    (* \\ *)
  else if c =? 34 then Some 34    (* backslash quote *)
  else None.

Definition next_item (l : list Z) : option (list Z * list Z) :=
  match l with
  | [] => None
  | c :: r =>
    if c =? 92 then                                   (* backslash *)
      match r with
      | [] => None
      | e :: r1 =>
        match simple_escape e with
        | Some b => Some ([b], r1)
        | None =>
          if e =? 120 then                            (* \xHH : one byte *)
            match r1 with
            | h1 :: h2 :: r2 =>
                match hexv [h1; h2] with Some v => Some ([v], r2) | None => None end
            | _ => None
            end
          else if e =? 117 then                       (* \uHHHH *)
            match r1 with
            | h1 :: h2 :: h3 :: h4 :: r2 => rune_out (hexv [h1; h2; h3; h4]) r2
            | _ => None
            end
          else if e =? 85 then                        (* \UHHHHHHHH *)
            match r1 with
            | h1 :: h2 :: h3 :: h4 :: h5 :: h6 :: h7 :: h8 :: r2 =>
                rune_out (hexv [h1; h2; h3; h4; h5; h6; h7; h8]) r2
            | _ => None
            end
          else if is_digit 8 e then                   (* \ooo : one byte <= 255 *)
            match r1 with
            | o2 :: o3 :: r2 =>
                if is_digit 8 o2 && is_digit 8 o3 then
                  let v := horner 8 [dval e; dval o2; dval o3] in
                  if v <=? 255 then Some ([v], r2) else None
                else None
            | _ => None
            end
          else None                                   (* undefined escape, incl. \' *)
        end
      end
    else if (c =? 34) || (c =? 10) then None          (* bare quote / newline *)
    else Some ([c], r)                                (* any other byte stands for itself *)
  end.

Fixpoint unquote_fuel (fuel : nat) (l : list Z) : option (list Z) :=
  match l with
  | [] => Some []
  | _ =>
    match fuel with
    | O => None
    | S f =>
      match next_item l with
      | Some (out, rest) =>
          match unquote_fuel f rest with
          | Some o2 => Some ((out ++ o2)%list)
          | None => None
          end
      | None => None
      end
    end
  end.
Definition unquote_body (l : list Z) : option (list Z) := unquote_fuel (List.length l) l.

(* HEAD_STR_PIECE comes before DOUBLEQUOTE_STR in the token table: a body whose first
   '#' is followed by '{' starts an embedded string, a different form. *)
Fixpoint starts_embedded (l : list Z) : bool :=
  match l with
  | [] => false
  | c :: r => if c =? 35 then match r with 123 :: _ => true | _ => false end
              else if c =? 34 then false
              else if c =? 92 then match r with 34 :: r1 => starts_embedded r1 | _ => starts_embedded r end
              else starts_embedded r
  end.

Definition str_denote (body : list Z) : lres :=
  if starts_embedded body then LNotLit else
  match unquote_body body with
  | Some bs => LStr bs
  | None => LReject
  end.

(* ---------- classification of a whole spelling (token table order) ---------- *)
Definition dec_or_exp (l : list Z) : lres :=
  match split_at is_e l with
  | Some (ms, es) => expint_denote ms es
  | None => int_denote 10 l
  end.

Definition lit_denote_codes (l : list Z) : lres :=
  match l with
  | [] => LNotLit
  | c :: r =>
    if c =? 34 then
      match rev r with
      | q :: rb => if q =? 34 then str_denote (rev rb) else LNotLit
      | [] => LNotLit
      end
    else
      match split_at is_dot l with
      | Some (ip, rest) => float_denote ip rest
      | None =>
        match r with
        | p :: r1 =>
          if c =? 48 then
            if (p =? 120) || (p =? 88) then int_denote 16 r1
            else if (p =? 111) || (p =? 79) then int_denote 8 r1
            else if (p =? 98) || (p =? 66) then int_denote 2 r1
            else dec_or_exp l
          else dec_or_exp l
        | [] => dec_or_exp l
        end
      end
  end.

Definition lit_denote (s : string) : lres := lit_denote_codes (codes s).

(* ---------- correspondence ---------- *)
Inductive spelling := SpS (s : string) | SpL (l : list Z).
Definition sp_codes (s : spelling) : list Z :=
  match s with SpS s => codes s | SpL l => l end.

Fixpoint list_eqb (a b : list Z) : bool :=
  match a, b with
  | [], [] => true
  | x :: a', y :: b' => (x =? y) && list_eqb a' b'
  | _, _ => false
  end.

Definition lres_eqb (x y : lres) : bool :=
  match x, y with
  | LInt a, LInt b => a =? b
  | LFloat a, LFloat b => a =? b
  | LStr a, LStr b => list_eqb a b
  | LReject, LReject => true
  | LNotLit, _ => true                (* the model says nothing *)
  | _, _ => false
  end.

Definition lcase := (Z * spelling * lres)%type.   (* index, spelling, what Go answered *)
(* one pass: the cases on which the model disagrees, and how many spellings the model
   does not classify as a literal (compared with nothing) *)
Definition lit_report (cs : list lcase) : list (Z * lres) * Z :=
  fold_right (fun c acc => match c with (i, s, r) =>
     let m := lit_denote_codes (sp_codes s) in
     (if lres_eqb m r then fst acc else (i, m) :: fst acc,
      match m with LNotLit => snd acc + 1 | _ => snd acc end) end) ([], 0) cs.
Definition lit_mismatches (cs : list lcase) : list (Z * lres) := fst (lit_report cs).
