(* Go's int64 modelled over Z: every operation is the mathematical one followed
   by an explicit wrap into [-2^63, 2^63).  Numerals are Z, never nat. *)
From Coq Require Import ZArith Lia Bool.
Local Open Scope Z_scope.

Definition two63 : Z := 9223372036854775808.
Definition two64 : Z := 18446744073709551616.
Definition min64 : Z := - two63.
Definition max64 : Z := two63 - 1.

Definition in64 (z : Z) : Prop := min64 <= z <= max64.
Definition in64b (z : Z) : bool := (min64 <=? z) && (z <=? max64).

Definition wrap (z : Z) : Z := (z + two63) mod two64 - two63.

Lemma in64b_spec z : in64b z = true <-> in64 z.
Proof. unfold in64b, in64. rewrite andb_true_iff, !Z.leb_le. tauto. Qed.

Lemma wrap_in64 z : in64 (wrap z).
Proof.
  unfold wrap, in64, min64, max64.
  pose proof (Z.mod_pos_bound (z + two63) two64 eq_refl) as H.
  unfold two63, two64 in *. lia.
Qed.

Lemma wrap_id z : in64 z -> wrap z = z.
Proof.
  unfold in64, wrap, min64, max64. intros H.
  rewrite Z.mod_small; unfold two63, two64 in *; lia.
Qed.

Lemma wrap_congr z : (wrap z - z) mod two64 = 0.
Proof.
  unfold wrap.
  replace ((z + two63) mod two64 - two63 - z)
    with ((z + two63) mod two64 - (z + two63)) by ring.
  rewrite Zminus_mod, Z.mod_mod by (unfold two64; lia).
  rewrite Z.sub_diag. reflexivity.
Qed.

(* Go: x + y, x - y, x * y, -x on int64 wrap around silently. *)
Definition add64 (a b : Z) : Z := wrap (a + b).
Definition sub64 (a b : Z) : Z := wrap (a - b).
Definition mul64 (a b : Z) : Z := wrap (a * b).
Definition neg64 (a : Z) : Z := wrap (- a).
(* Go: x / y truncates toward zero, x % y has the sign of x;
   MinInt64 / -1 wraps to MinInt64 (Go spec, "Integer overflow"). *)
Definition quot64 (a b : Z) : Z := wrap (Z.quot a b).
Definition rem64 (a b : Z) : Z := wrap (Z.rem a b).
