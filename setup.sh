#!/bin/sh
# Run once after a fresh restore, offline: builds the Coq development (full .vo
# build) and the Go harness against /repo.
set -e
cd "$(dirname "$0")"
export GOFLAGS=-mod=mod GOPROXY=off GOSUMDB=off GOTOOLCHAIN=local
mkdir -p build coq/gen evidence
cp /repo/go.sum harness/go.sum
(cd harness && CGO_ENABLED=0 go build -tags verif -o ../build/panharness .)
python3 -c "import sys; sys.path.insert(0, \"tools\"); import pv; pv.write_coq_project()"
(cd coq && coq_makefile -f _CoqProject -o Makefile && timeout 3000 make -j16)
echo setup done
