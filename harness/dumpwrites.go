package main

import (
	"bytes"
	"encoding/json"
	"fmt"
	"go/ast"
	"go/parser"
	"go/printer"
	"go/token"
	"os"
	"path/filepath"
	"regexp"
	"sort"
	"strings"
)

// dumpwrites (translator of C06): lists every statement of the interpreter that can
// write through a slice, a map or a pointer (append, x[i] = v, (*p)[k] = v, delete,
// copy, in-place sort.*, calls of mutating methods such as AddPairs, field
// assignments x.f = v) together with the ROOT of the destination:
//
//	fresh    a local initialised in the same function by a composite literal, make,
//	         new, a conversion, append onto a fresh expression, or an allow-listed
//	         constructor; every assignment to that local must be fresh
//	startup  the enclosing function runs before any user code (init, injectProps…)
//	env      the variable store of *object.Env (variables may change by definition)
//	receiver the write goes through the receiver of a method: the method is a
//	         mutator and every call site of it is listed as a write site itself
//	parameter the write goes through parameter i of an unexported declared function that is only
//	         ever called by name (never used as a value; at least one call site exists): every call site of it is
//	         listed as a write site itself, with the i-th argument as destination
//	shared   anything else (field of an existing object, parameter, global, unknown)
//
// request: {"repo": "/repo", "dirs": ["props","evaluator","object","di"],
//
//	"constructors": ["^(object\\.)?New\\w*$", …], "startup": ["init", …],
//	"mutators": ["AddPairs"]}
//
// reply: {"sites": [{file,line,func,kind,stmt,dst,root,class,why}, …], "files": n}
type dwReq struct {
	Repo         string   `json:"repo"`
	Dirs         []string `json:"dirs"`
	Constructors []string `json:"constructors"`
	Wrappers     []string `json:"wrappers"`
	Startup      []string `json:"startup"`
	Mutators     []string `json:"mutators"`
}

type dwSite struct {
	File  string `json:"file"`
	Line  int    `json:"line"`
	Func  string `json:"func"`
	Kind  string `json:"kind"`
	Stmt  string `json:"stmt"`
	Dst   string `json:"dst"`
	Root  string `json:"root"`
	Class string `json:"class"`
	Why   string `json:"why"`
}

func init() { register("dumpwrites", cmdDumpWrites) }

func cmdDumpWrites() {
	readLines(func(line []byte) {
		var q dwReq
		if err := json.Unmarshal(line, &q); err != nil {
			panic(err)
		}
		emit(dumpWrites(q))
	})
}

type dwCtx struct {
	fset     *token.FileSet
	ctors    []*regexp.Regexp
	wrappers []*regexp.Regexp
	startup  map[string]bool
	mutators map[string]bool
	pmut     map[string]map[int]bool // function name -> parameter positions it writes through
	escapes  map[string]bool         // names of declared functions that are used other than by calling them
	called   map[string]int          // number of call sites by name
	resFrom  map[string]map[int]int  // function name -> result position -> parameter it passes through (itself or appended to)
	paramIdx map[*ast.Object]int     // parameter of a declared function -> its position
	paramVar map[*ast.Object]bool    // ... and whether it is the variadic one
	paramFn  map[*ast.Object]string  // ... and the bare name of that function
	// per file
	assigns map[*ast.Object][]dwInit // every value ever given to a local
	params  map[*ast.Object]string   // "param" | "receiver" | "result"
	globals map[*ast.Object]bool
	sites   []dwSite
	rel     string
}

// dwInit is one value that a local variable receives.
type dwInit struct {
	expr ast.Expr // nil for `var x T` (zero value)
	via  string   // "" | "range" | "typeswitch" | "multi"
	pos  int      // multi: which result of the call
}

func dumpWrites(q dwReq) map[string]interface{} {
	c := &dwCtx{fset: token.NewFileSet(), startup: map[string]bool{}, mutators: map[string]bool{},
		pmut: map[string]map[int]bool{}, escapes: map[string]bool{}, called: map[string]int{}, resFrom: map[string]map[int]int{}, paramIdx: map[*ast.Object]int{},
		paramVar: map[*ast.Object]bool{}, paramFn: map[*ast.Object]string{}}
	for _, r := range q.Constructors {
		c.ctors = append(c.ctors, regexp.MustCompile(r))
	}
	for _, r := range q.Wrappers {
		c.wrappers = append(c.wrappers, regexp.MustCompile(r))
	}
	for _, s := range q.Startup {
		c.startup[s] = true
	}
	for _, s := range q.Mutators {
		c.mutators[s] = true
	}
	var files []string
	for _, d := range q.Dirs {
		filepath.Walk(filepath.Join(q.Repo, d), func(p string, info os.FileInfo, err error) error {
			if err != nil {
				return nil
			}
			if !info.IsDir() && strings.HasSuffix(p, ".go") && !strings.HasSuffix(p, "_test.go") {
				files = append(files, p)
			}
			return nil
		})
	}
	sort.Strings(files)
	parsed := map[string]*ast.File{}
	for _, p := range files {
		f, err := parser.ParseFile(c.fset, p, nil, 0)
		if err != nil {
			panic(err)
		}
		parsed[p] = f
	}
	c.scanFuncs(parsed)
	// pass 1: methods that write through their receiver are mutators (AddPairs is
	// given; others are discovered), so that their call sites become write sites; the
	// same for declared functions that write through a parameter.
	for round := 0; round < 6; round++ {
		c.sites = nil
		for _, p := range files {
			rel, _ := filepath.Rel(q.Repo, p)
			c.rel = rel
			c.file(parsed[p])
		}
		grew := false
		for _, s := range c.sites {
			if s.Class == "parameter" {
				var fn string
				var idx int
				if n, _ := fmt.Sscanf(s.Why, "through parameter %d of function %s", &idx, &fn); n == 2 {
					if c.pmut[fn] == nil {
						c.pmut[fn] = map[int]bool{}
					}
					if !c.pmut[fn][idx] {
						c.pmut[fn][idx] = true
						grew = true
					}
				}
			}
			if s.Class == "receiver" {
				m := s.Func[strings.LastIndex(s.Func, ".")+1:]
				if !c.mutators[m] {
					c.mutators[m] = true
					grew = true
				}
			}
		}
		if !grew {
			break
		}
	}
	muts := []string{}
	for m := range c.mutators {
		muts = append(muts, m)
	}
	sort.Strings(muts)
	pm := map[string][]int{}
	for fn, m := range c.pmut {
		for i := range m {
			pm[fn] = append(pm[fn], i)
		}
		sort.Ints(pm[fn])
	}
	return map[string]interface{}{"sites": c.sites, "files": len(files), "mutators": muts, "param_mutators": pm}
}

// scanFuncs: positions of the parameters of every declared function (not method, not
// function literal), and the names of declared functions that occur anywhere other
// than as the callee of a call (used as a value: their call sites cannot be listed).
func (c *dwCtx) scanFuncs(parsed map[string]*ast.File) {
	declared := map[string]int{}
	for _, f := range parsed {
		for _, d := range f.Decls {
			fd, ok := d.(*ast.FuncDecl)
			if !ok || fd.Recv != nil {
				continue
			}
			declared[fd.Name.Name]++
			i := 0
			for _, fl := range fd.Type.Params.List {
				_, variadic := fl.Type.(*ast.Ellipsis)
				for _, id := range fl.Names {
					if id.Obj != nil {
						c.paramIdx[id.Obj] = i
						c.paramVar[id.Obj] = variadic
						c.paramFn[id.Obj] = fd.Name.Name
					}
					i++
				}
				if len(fl.Names) == 0 {
					i++
				}
			}
		}
	}
	for name, n := range declared {
		if n > 1 {
			c.escapes[name] = true // the same name in two packages: call sites are ambiguous
		}
	}
	for _, f := range parsed {
		for _, d := range f.Decls {
			if fd, ok := d.(*ast.FuncDecl); ok && fd.Recv == nil && declared[fd.Name.Name] == 1 {
				c.resultSummary(fd)
			}
		}
	}
	for _, f := range parsed {
		callee := map[*ast.Ident]bool{}
		ast.Inspect(f, func(n ast.Node) bool {
			switch n := n.(type) {
			case *ast.CallExpr:
				switch fun := n.Fun.(type) {
				case *ast.Ident:
					callee[fun] = true
					c.called[fun.Name]++
				case *ast.SelectorExpr:
					callee[fun.Sel] = true
					c.called[fun.Sel.Name]++
				}
			case *ast.FuncDecl:
				callee[n.Name] = true
			case *ast.Ident:
				if declared[n.Name] > 0 && !callee[n] && (n.Obj == nil || n.Obj.Kind == ast.Fun) {
					c.escapes[n.Name] = true
				}
			}
			return true
		})
	}
}

func (c *dwCtx) text(n ast.Node) string {
	var b bytes.Buffer
	printer.Fprint(&b, c.fset, n)
	s := strings.Join(strings.Fields(b.String()), " ")
	if len(s) > 160 {
		s = s[:160] + "…"
	}
	return s
}

func (c *dwCtx) file(f *ast.File) {
	c.assigns = map[*ast.Object][]dwInit{}
	c.params = map[*ast.Object]string{}
	c.globals = map[*ast.Object]bool{}
	for _, d := range f.Decls {
		if gd, ok := d.(*ast.GenDecl); ok {
			for _, sp := range gd.Specs {
				if vs, ok := sp.(*ast.ValueSpec); ok {
					for _, id := range vs.Names {
						if id.Obj != nil {
							c.globals[id.Obj] = true
						}
					}
				}
			}
		}
	}
	// collect every value each local receives
	ast.Inspect(f, func(n ast.Node) bool {
		switch n := n.(type) {
		case *ast.FuncDecl:
			c.fields(n.Recv, "receiver")
			c.fields(n.Type.Params, "param")
			c.fields(n.Type.Results, "result")
		case *ast.FuncLit:
			c.fields(n.Type.Params, "param")
			c.fields(n.Type.Results, "result")
		case *ast.AssignStmt:
			if len(n.Lhs) == len(n.Rhs) {
				for i, l := range n.Lhs {
					if id, ok := l.(*ast.Ident); ok && id.Obj != nil {
						c.assigns[id.Obj] = append(c.assigns[id.Obj], dwInit{expr: n.Rhs[i]})
					}
				}
			} else if len(n.Rhs) == 1 {
				for k, l := range n.Lhs {
					if id, ok := l.(*ast.Ident); ok && id.Obj != nil {
						c.assigns[id.Obj] = append(c.assigns[id.Obj], dwInit{expr: n.Rhs[0], via: "multi", pos: k})
					}
				}
			}
		case *ast.ValueSpec:
			for i, id := range n.Names {
				if id.Obj == nil {
					continue
				}
				if i < len(n.Values) {
					c.assigns[id.Obj] = append(c.assigns[id.Obj], dwInit{expr: n.Values[i]})
				} else if len(n.Values) == 0 {
					c.assigns[id.Obj] = append(c.assigns[id.Obj], dwInit{expr: nil})
				} else {
					c.assigns[id.Obj] = append(c.assigns[id.Obj], dwInit{expr: n.Values[0], via: "multi"})
				}
			}
		case *ast.RangeStmt:
			for _, l := range []ast.Expr{n.Key, n.Value} {
				if id, ok := l.(*ast.Ident); ok && id.Obj != nil {
					c.assigns[id.Obj] = append(c.assigns[id.Obj], dwInit{expr: n.X, via: "range"})
				}
			}
		case *ast.TypeSwitchStmt:
			if as, ok := n.Assign.(*ast.AssignStmt); ok && len(as.Lhs) == 1 && len(as.Rhs) == 1 {
				if ta, ok := as.Rhs[0].(*ast.TypeAssertExpr); ok {
					// the parser creates one object per clause; they all come from ta.X
					for _, cl := range n.Body.List {
						if cc, ok := cl.(*ast.CaseClause); ok {
							ast.Inspect(cc, func(m ast.Node) bool {
								if id, ok := m.(*ast.Ident); ok && id.Obj != nil && id.Obj.Decl == ast.Node(cc) {
									if len(c.assigns[id.Obj]) == 0 {
										c.assigns[id.Obj] = append(c.assigns[id.Obj], dwInit{expr: ta.X, via: "typeswitch"})
									}
								}
								return true
							})
						}
					}
					if id, ok := as.Lhs[0].(*ast.Ident); ok && id.Obj != nil {
						c.assigns[id.Obj] = append(c.assigns[id.Obj], dwInit{expr: ta.X, via: "typeswitch"})
					}
				}
			}
		}
		return true
	})
	// walk the declarations, remembering the enclosing function
	for _, d := range f.Decls {
		switch d := d.(type) {
		case *ast.FuncDecl:
			name := d.Name.Name
			recvT := ""
			var recvObj *ast.Object
			if d.Recv != nil && len(d.Recv.List) > 0 {
				recvT = strings.TrimPrefix(c.text(d.Recv.List[0].Type), "*")
				name = recvT + "." + name
				if len(d.Recv.List[0].Names) > 0 {
					recvObj = d.Recv.List[0].Names[0].Obj
				}
			}
			if d.Body != nil {
				c.walk(d.Body, name, d.Name.Name, recvT, recvObj)
			}
		case *ast.GenDecl:
			// package-level initialisers run at start-up
			c.walk(d, "<package-init>", "init", "", nil)
		}
	}
}

func (c *dwCtx) fields(fl *ast.FieldList, what string) {
	if fl == nil {
		return
	}
	for _, f := range fl.List {
		for _, id := range f.Names {
			if id.Obj != nil {
				c.params[id.Obj] = what
			}
		}
	}
}

// walk visits the body of one top-level function. Function literals that are the
// value of a key in a composite literal get the name Outer["key"] (that is how the
// built-in props are declared: "+": f(func(...){...})).
func (c *dwCtx) walk(body ast.Node, fn, bare, recvT string, recvObj *ast.Object) {
	var stack []ast.Node
	curName := func() string {
		for i := len(stack) - 1; i >= 0; i-- {
			if kv, ok := stack[i].(*ast.KeyValueExpr); ok {
				if bl, ok := kv.Key.(*ast.BasicLit); ok {
					return fn + "[" + strings.Trim(bl.Value, "\"`") + "]"
				}
			}
		}
		return fn
	}
	curStmt := func() ast.Node {
		for i := len(stack) - 1; i >= 0; i-- {
			switch stack[i].(type) {
			case *ast.AssignStmt, *ast.ExprStmt, *ast.ReturnStmt, *ast.IncDecStmt, *ast.ValueSpec, *ast.DeferStmt, *ast.GoStmt:
				return stack[i]
			}
		}
		return stack[len(stack)-1]
	}
	add := func(at ast.Node, kind string, dst ast.Expr) {
		class, root, why := c.classify(dst, 0)
		if class != "fresh" {
			if c.startup[bare] || fn == "<package-init>" {
				class, why = "startup", "runs before user code ("+fn+"); "+why
			} else if recvObj != nil && rootObj(dst) == recvObj {
				if recvT == "Env" {
					class, why = "env", "variable store of *object.Env"
				} else {
					class, why = "receiver", "through the receiver of method "+fn+" (its call sites are listed)"
				}
			} else if ro := rootObj(dst); ro != nil && recvObj == nil && c.paramFn[ro] == bare && fn == bare && !ast.IsExported(bare) && !c.escapes[bare] && c.called[bare] > 0 && !c.paramVar[ro] && directRoot(dst) {
				class, why = "parameter", fmt.Sprintf("through parameter %d of function %s (its call sites are listed)", c.paramIdx[ro], bare)
			}
		}
		pos := c.fset.Position(at.Pos())
		c.sites = append(c.sites, dwSite{File: c.rel, Line: pos.Line, Func: curName(), Kind: kind,
			Stmt: c.text(curStmt()), Dst: c.text(dst), Root: root, Class: class, Why: why})
	}
	var visit func(n ast.Node) bool
	visit = func(n ast.Node) bool {
		if n == nil {
			stack = stack[:len(stack)-1]
			return true
		}
		stack = append(stack, n)
		switch n := n.(type) {
		case *ast.CallExpr:
			switch fun := n.Fun.(type) {
			case *ast.Ident:
				if idxs, ok := c.pmut[fun.Name]; ok && (fun.Obj == nil || fun.Obj.Kind == ast.Fun) {
					for i := range n.Args {
						if idxs[i] {
							add(n, "call:"+fun.Name, n.Args[i])
						}
					}
				}
				if fun.Obj == nil && len(n.Args) >= 1 {
					switch fun.Name {
					case "append":
						add(n, "append", n.Args[0])
					case "copy":
						add(n, "copy", n.Args[0])
					case "delete":
						add(n, "delete", n.Args[0])
					case "clear":
						add(n, "clear", n.Args[0])
					}
				}
			case *ast.SelectorExpr:
				if pk, ok := fun.X.(*ast.Ident); ok && pk.Obj == nil && (pk.Name == "sort" || pk.Name == "slices") && len(n.Args) >= 1 {
					switch fun.Sel.Name {
					case "Strings", "Ints", "Float64s", "Slice", "SliceStable", "Sort", "Stable", "SortFunc", "SortStableFunc", "Reverse":
						if !(pk.Name == "sort" && fun.Sel.Name == "Reverse") {
							add(n, pk.Name+"."+fun.Sel.Name, n.Args[0])
						}
					}
				} else if c.mutators[fun.Sel.Name] {
					add(n, "call:"+fun.Sel.Name, fun.X)
				}
				if idxs, ok := c.pmut[fun.Sel.Name]; ok {
					for i := range n.Args {
						if idxs[i] {
							add(n, "call:"+fun.Sel.Name, n.Args[i])
						}
					}
				}
			}
		case *ast.AssignStmt:
			for _, l := range n.Lhs {
				c.lhs(l, n, add)
			}
		case *ast.IncDecStmt:
			c.lhs(n.X, n, add)
		}
		return true
	}
	ast.Inspect(body, visit)
}

func (c *dwCtx) lhs(l ast.Expr, at ast.Node, add func(ast.Node, string, ast.Expr)) {
	for {
		if p, ok := l.(*ast.ParenExpr); ok {
			l = p.X
			continue
		}
		break
	}
	switch l := l.(type) {
	case *ast.IndexExpr:
		add(at, "index", l.X)
	case *ast.SelectorExpr:
		add(at, "field", l.X)
	case *ast.StarExpr:
		add(at, "deref", l.X)
	}
}

// directRoot: the destination is the parameter itself, *p, (*p) or p[...] sliced — no field
// selection and no element (x.f and x[i].f reach objects the caller did not pass as such).
func directRoot(e ast.Expr) bool {
	for {
		switch x := e.(type) {
		case *ast.ParenExpr:
			e = x.X
		case *ast.StarExpr:
			e = x.X
		case *ast.SliceExpr:
			e = x.X
		case *ast.Ident:
			return true
		default:
			return false
		}
	}
}

// rootObj strips selectors, indexing, slicing, derefs and returns the variable at
// the bottom, if any.
func rootObj(e ast.Expr) *ast.Object {
	for {
		switch x := e.(type) {
		case *ast.ParenExpr:
			e = x.X
		case *ast.StarExpr:
			e = x.X
		case *ast.SliceExpr:
			e = x.X
		case *ast.IndexExpr:
			e = x.X
		case *ast.SelectorExpr:
			e = x.X
		case *ast.TypeAssertExpr:
			e = x.X
		case *ast.UnaryExpr:
			e = x.X
		case *ast.Ident:
			return x.Obj
		default:
			return nil
		}
	}
}

func (c *dwCtx) isCtor(name string) bool {
	for _, r := range c.ctors {
		if r.MatchString(name) {
			return true
		}
	}
	return false
}

// classify returns (class, root text, reason) of an expression used as the
// destination of a write. Conservative: anything not recognised is shared.
func (c *dwCtx) classify(e ast.Expr, depth int) (string, string, string) {
	if depth > 12 {
		return "shared", c.text(e), "too deep"
	}
	switch x := e.(type) {
	case nil:
		return "fresh", "<zero value>", "zero value (nil slice/map: a write allocates)"
	case *ast.ParenExpr:
		return c.classify(x.X, depth+1)
	case *ast.StarExpr:
		return c.classify(x.X, depth+1)
	case *ast.SliceExpr:
		return c.classify(x.X, depth+1)
	case *ast.IndexExpr:
		// an element of a container: as shared as the container, and an element that
		// is itself a pointer may be shared even when the container is fresh
		cl, root, why := c.classify(x.X, depth+1)
		if cl == "fresh" {
			return "shared", c.text(e), "element of " + root + " (elements may alias)"
		}
		return cl, root, why
	case *ast.TypeAssertExpr:
		return c.classify(x.X, depth+1)
	case *ast.UnaryExpr:
		if x.Op == token.AND {
			return c.classify(x.X, depth+1)
		}
	case *ast.CompositeLit:
		return "fresh", c.text(x.Type), "composite literal"
	case *ast.CallExpr:
		switch f := x.Fun.(type) {
		case *ast.ArrayType, *ast.MapType:
			return "fresh", c.text(x.Fun), "conversion"
		case *ast.Ident:
			if f.Obj == nil {
				switch f.Name {
				case "make", "new":
					return "fresh", f.Name, f.Name
				case "append":
					if len(x.Args) > 0 {
						cl, root, why := c.classify(x.Args[0], depth+1)
						return cl, root, "append onto " + why
					}
				case "string":
					return "fresh", "string", "conversion"
				}
			}
			return c.call(f.Name, x, depth)
		case *ast.SelectorExpr:
			return c.call(c.text(f), x, depth)
		}
	case *ast.SelectorExpr:
		cl, root, why := c.classify(x.X, depth+1)
		if cl == "fresh" {
			// writing THROUGH field f of a fresh struct: f itself must hold a fresh
			// slice/map/pointer (look at what the struct was built from)
			return c.throughField(x.X, x.Sel.Name, root, why, depth+1)
		}
		return "shared", c.text(x), "field of " + root + " (" + why + ")"
	case *ast.Ident:
		if x.Obj == nil {
			if x.Name == "nil" {
				return "fresh", "nil", "nil"
			}
			return "shared", x.Name, "package-level variable (other file)"
		}
		if k, ok := c.params[x.Obj]; ok {
			return "shared", x.Name, k
		}
		if c.globals[x.Obj] {
			return "shared", x.Name, "package-level variable"
		}
		inits := c.assigns[x.Obj]
		if len(inits) == 0 {
			return "shared", x.Name, "no initialiser found"
		}
		reason := ""
		for _, in := range inits {
			if in.expr != nil && selfAppend(in.expr, x.Obj) {
				continue // x = append(x, …): as fresh as the other values of x
			}
			if arg := c.passThrough(in); arg != nil {
				// x, … = f(…, arg, …) where f returns that parameter itself or append(that parameter, …)
				if id, ok := arg.(*ast.Ident); ok && id.Obj == x.Obj {
					continue // as fresh as the other values of x
				}
				cl, root, why := c.classify(arg, depth+1)
				if cl != "fresh" {
					return "shared", x.Name, "local set from " + root + " (" + why + ")"
				}
				if reason == "" {
					reason = "local := pass-through of " + why
				}
				continue
			}
			if in.via == "range" {
				cl, root, why := c.classify(in.expr, depth+1)
				if cl != "fresh" {
					return "shared", x.Name, "range over " + root + " (" + why + ")"
				}
				return "shared", x.Name, "element of " + root + " (elements may alias)"
			}
			cl, root, why := c.classify(in.expr, depth+1)
			if cl != "fresh" {
				return "shared", x.Name, "local set from " + root + " (" + why + ")"
			}
			if reason == "" {
				reason = "local := " + why
			}
		}
		if reason == "" {
			return "shared", x.Name, "only self-appends"
		}
		return "fresh", x.Name, reason
	case *ast.FuncLit:
		return "fresh", "func", "function literal"
	}
	return "shared", c.text(e), fmt.Sprintf("unrecognised %T", e)
}

// call classifies the result of a call: deep constructors give a value whose interior
// is new whatever the arguments are; wrappers (NewPanArr(elems...), NewPanObj(pairs, …),
// ChildPanObjPtr(proto, src)) give a new struct whose interior is their arguments.
func (c *dwCtx) call(name string, x *ast.CallExpr, depth int) (string, string, string) {
	if c.isCtor(name) {
		return "fresh", name + "()", "constructor " + name
	}
	for _, r := range c.wrappers {
		if r.MatchString(name) {
			for _, a := range x.Args {
				if _, ok := a.(*ast.BasicLit); ok {
					continue
				}
				cl, root, why := c.classify(a, depth+1)
				if cl != "fresh" {
					return "shared", name + "(" + root + ")", "wrapper " + name + " around " + root + " (" + why + ")"
				}
			}
			return "fresh", name + "()", "wrapper " + name + " around fresh arguments"
		}
	}
	return "shared", name + "()", "result of a call that is not a known constructor"
}

// throughField: destination is reached through field f of the fresh struct x.
func (c *dwCtx) throughField(x ast.Expr, f, root, why string, depth int) (string, string, string) {
	var srcs []ast.Expr
	for {
		switch y := x.(type) {
		case *ast.ParenExpr:
			x = y.X
			continue
		case *ast.StarExpr:
			x = y.X
			continue
		case *ast.UnaryExpr:
			x = y.X
			continue
		}
		break
	}
	switch y := x.(type) {
	case *ast.Ident:
		if y.Obj != nil {
			for _, in := range c.assigns[y.Obj] {
				if in.via != "" {
					return "shared", c.text(x) + "." + f, "field of a local that is not built here"
				}
				srcs = append(srcs, in.expr)
			}
		}
	default:
		srcs = append(srcs, x)
	}
	if len(srcs) == 0 {
		return "shared", c.text(x) + "." + f, "field of " + root + ": no initialiser"
	}
	for _, s := range srcs {
		for {
			switch y := s.(type) {
			case *ast.ParenExpr:
				s = y.X
				continue
			case *ast.UnaryExpr:
				s = y.X
				continue
			}
			break
		}
		switch y := s.(type) {
		case nil:
			// zero value
		case *ast.CompositeLit:
			for _, el := range y.Elts {
				kv, ok := el.(*ast.KeyValueExpr)
				if !ok {
					return "shared", c.text(x) + "." + f, "positional composite literal"
				}
				if k, ok := kv.Key.(*ast.Ident); ok && k.Name == f {
					cl, r2, w2 := c.classify(kv.Value, depth+1)
					if cl != "fresh" {
						return "shared", c.text(x) + "." + f, "field " + f + " of the fresh struct was set from " + r2 + " (" + w2 + ")"
					}
				}
			}
		case *ast.CallExpr:
			cl, r2, w2 := c.classify(y, depth+1)
			if cl != "fresh" {
				return "shared", c.text(x) + "." + f, "field of " + r2 + " (" + w2 + ")"
			}
		default:
			return "shared", c.text(x) + "." + f, "field of a value of unknown origin"
		}
	}
	return "fresh", root, "field " + f + " of " + why
}

// passThrough: the value is result k of a call of a declared function whose every return gives, at
// position k, one of its parameters or append(that parameter, …): returns the argument passed for it.
func (c *dwCtx) passThrough(in dwInit) ast.Expr {
	call, ok := in.expr.(*ast.CallExpr)
	if !ok || in.via == "range" || in.via == "typeswitch" {
		return nil
	}
	f, ok := call.Fun.(*ast.Ident)
	if !ok || (f.Obj != nil && f.Obj.Kind != ast.Fun) {
		return nil
	}
	m, ok := c.resFrom[f.Name]
	if !ok || call.Ellipsis.IsValid() {
		return nil
	}
	j, ok := m[in.pos]
	if !ok || j >= len(call.Args) {
		return nil
	}
	return call.Args[j]
}

// resultSummary fills resFrom for one declared function.
func (c *dwCtx) resultSummary(fd *ast.FuncDecl) {
	if fd.Body == nil || fd.Type.Results == nil {
		return
	}
	for _, r := range fd.Type.Results.List {
		if len(r.Names) > 0 {
			return // named results: not summarised
		}
	}
	idx := map[*ast.Object]int{}
	i := 0
	for _, fl := range fd.Type.Params.List {
		if _, variadic := fl.Type.(*ast.Ellipsis); variadic {
			return
		}
		for _, id := range fl.Names {
			if id.Obj != nil {
				idx[id.Obj] = i
			}
			i++
		}
		if len(fl.Names) == 0 {
			i++
		}
	}
	// a parameter that is assigned to inside the body is no longer "the argument"
	assigned := map[*ast.Object]bool{}
	ast.Inspect(fd.Body, func(n ast.Node) bool {
		if as, ok := n.(*ast.AssignStmt); ok {
			for _, l := range as.Lhs {
				if id, ok := l.(*ast.Ident); ok && id.Obj != nil {
					if _, isParam := idx[id.Obj]; isParam {
						assigned[id.Obj] = true
					}
				}
			}
		}
		return true
	})
	from := map[int]int{}
	bad := map[int]bool{}
	n := len(fd.Type.Results.List)
	var visit func(n ast.Node) bool
	visit = func(nd ast.Node) bool {
		switch x := nd.(type) {
		case *ast.FuncLit:
			return false
		case *ast.ReturnStmt:
			if len(x.Results) != n {
				for k := 0; k < n; k++ {
					bad[k] = true
				}
				return true
			}
			for k, e := range x.Results {
				o := passedParam(e)
				j, isParam := idx[o]
				if o == nil || !isParam || assigned[o] {
					bad[k] = true
					continue
				}
				if prev, ok := from[k]; ok && prev != j {
					bad[k] = true
				}
				from[k] = j
			}
		}
		return true
	}
	ast.Inspect(fd.Body, visit)
	out := map[int]int{}
	for k, j := range from {
		if !bad[k] {
			out[k] = j
		}
	}
	if len(out) > 0 {
		c.resFrom[fd.Name.Name] = out
	}
}

// passedParam: e is `p`, `(p)`, `p[a:b]` or `append(<one of these>, …)`: returns p's object.
func passedParam(e ast.Expr) *ast.Object {
	for {
		switch x := e.(type) {
		case *ast.ParenExpr:
			e = x.X
			continue
		case *ast.SliceExpr:
			e = x.X
			continue
		case *ast.CallExpr:
			if id, ok := x.Fun.(*ast.Ident); ok && id.Name == "append" && id.Obj == nil && len(x.Args) > 0 {
				e = x.Args[0]
				continue
			}
			return nil
		case *ast.Ident:
			return x.Obj
		}
		return nil
	}
}

func selfAppend(e ast.Expr, o *ast.Object) bool {
	call, ok := e.(*ast.CallExpr)
	if !ok || len(call.Args) == 0 {
		return false
	}
	if id, ok := call.Fun.(*ast.Ident); !ok || id.Name != "append" || id.Obj != nil {
		return false
	}
	a := call.Args[0]
	for {
		switch x := a.(type) {
		case *ast.ParenExpr:
			a = x.X
			continue
		case *ast.SliceExpr:
			a = x.X
			continue
		}
		break
	}
	id, ok := a.(*ast.Ident)
	return ok && id.Obj == o
}
