package main

// race — witness search / translator cross-check of C20. Meant to be built with
// `go build -race`: N goroutines evaluate programs at the same time, each in its own
// enclosed scope of ONE interpreter (one global env, the process-wide symbol tables),
// as the start-up loaders and the HTTP handlers of props/modules/http do.
//   kind 0  interns fresh symbols through new identifiers and object-literal keys
//   kind 1  interns fresh symbols through JSON.dec keys and `"name := 1".evalEnv`
//   kind 2  converts symbols back to strings by calling object.SymHash2Str directly
//           (hashes of built-in names and of the names the other goroutines intern)
//   kind 3  converts through the language: `"a := 1".evalEnv` (Env.Items), `{..}.keys`,
//           `.repr`, Inspect of the resulting objects
// Every goroutine has its own env, its own IO object and its own output buffer; the
// harness shares nothing between goroutines but the interpreter under test and atomic
// counters. Every evaluation also has an expected value, so a corrupted lookup is seen
// even when the race detector is silent.
//
// request: {"seed":1,"goroutines":16,"millis":15000,"nodirect":false}
// reply  : {"goroutines":..,"iterations":[..],"evaluations":..,"interned":..,"conversions":..,
//           "mismatches":[..],"startup_ms":..}
// Race reports go where GORACE says (log_path) or to stderr.

import (
	"bytes"
	"encoding/json"
	"fmt"
	"hash/fnv"
	"strings"
	"sync"
	"sync/atomic"
	"time"

	"github.com/Syuparn/pangaea/object"
)

func init() { register("race", cmdRace) }

type raceReq struct {
	Seed       int64 `json:"seed"`
	Goroutines int   `json:"goroutines"`
	Millis     int   `json:"millis"`
	// NoDirect: no goroutine calls object.SymHash2Str from the harness; symbols are
	// converted back only through the language (evalEnv / keys / repr)
	NoDirect bool `json:"nodirect"`
}

type raceReply struct {
	Goroutines  int      `json:"goroutines"`
	Iterations  []int64  `json:"iterations"`
	Evaluations int64    `json:"evaluations"`
	Interned    int64    `json:"interned"`
	Conversions int64    `json:"conversions"`
	Mismatches  []string `json:"mismatches"`
	StartupMs   int64    `json:"startup_ms"`
	Kinds       []string `json:"kinds"`
}

func raceName(seed int64, g int, i int64, tag string) string {
	return fmt.Sprintf("q%dg%di%d%s", seed, g, i, tag)
}

func fnv64a(s string) uint64 {
	h := fnv.New64a()
	h.Write([]byte(s))
	return h.Sum64()
}

var raceBuiltinNames = []string{"Int", "Str", "Arr", "Obj", "Map", "Kernel", "JSON", "Iterable", "call", "new", "at", "S", "repr"}

func cmdRace() {
	readLines(func(line []byte) {
		var q raceReq
		if err := json.Unmarshal(line, &q); err != nil {
			panic(err)
		}
		emit(runRace(q))
	})
}

func runRace(q raceReq) raceReply {
	if q.Goroutines <= 0 {
		q.Goroutines = 8
	}
	if q.Millis <= 0 {
		q.Millis = 3000
	}
	t0 := time.Now()
	var mainOut bytes.Buffer
	// start-up: 19 loader goroutines evaluate the native sources concurrently
	global := newEnv(strings.NewReader(""), &mainOut)
	rep := raceReply{Goroutines: q.Goroutines, Iterations: make([]int64, q.Goroutines),
		Mismatches: []string{}, StartupMs: time.Since(t0).Milliseconds(),
		Kinds: []string{"intern:ident+objkey", "intern:json+evalEnv", "convert:SymHash2Str", "convert:evalEnv+keys+repr"}}
	deadline := time.Now().Add(time.Duration(q.Millis) * time.Millisecond)
	var evals, interned, convs int64
	var mu sync.Mutex // protects rep.Mismatches only
	mismatch := func(s string) {
		mu.Lock()
		if len(rep.Mismatches) < 20 {
			rep.Mismatches = append(rep.Mismatches, s)
		}
		mu.Unlock()
	}
	noFuel = true
	var wg sync.WaitGroup
	for g := 0; g < q.Goroutines; g++ {
		wg.Add(1)
		go func(g int) {
			defer wg.Done()
			var out bytes.Buffer
			env := object.NewEnclosedEnv(global)
			env.InjectIO(strings.NewReader(""), &out)
			expect := func(src, want string) {
				out.Reset()
				r := evalIn(src, object.NewEnclosedEnv(env), &out)
				atomic.AddInt64(&evals, 1)
				got := r.Repr
				if r.Kind != "value" {
					got = r.Kind + ":" + r.ErrK + r.ErrMsg + r.Panic
				}
				if got != want {
					mismatch(fmt.Sprintf("goroutine %d: `%s` gave %s, expected %s", g, src, got, want))
				}
			}
			frontier := make([]int64, q.Goroutines)
			var i int64
			for ; time.Now().Before(deadline); i++ {
				kind := g % 4
				if q.NoDirect && kind == 2 {
					kind = 3 * ((g / 4) % 2)
				}
				switch kind {
				case 0:
					n, m := raceName(q.Seed, g, i, "a"), raceName(q.Seed, g, i, "b")
					expect(fmt.Sprintf("%s := %d; %s + 1", n, i, n), fmt.Sprint(i+1))
					expect(fmt.Sprintf("{%s: %d, %s: 2}.%s", m, i, n, m), fmt.Sprint(i))
					atomic.AddInt64(&interned, 2)
				case 1:
					n, m := raceName(q.Seed, g, i, "j"), raceName(q.Seed, g, i, "e")
					expect(fmt.Sprintf("JSON.dec(`{\"%s\": %d, \"k\": [1, {\"%sn\": 2}]}`).%s", n, i, n, n), fmt.Sprint(i))
					expect(fmt.Sprintf("\"%s := %d\".evalEnv.%s", m, i, m), fmt.Sprint(i))
					atomic.AddInt64(&interned, 3)
					atomic.AddInt64(&convs, 1)
				case 2:
					// names the other goroutines intern, around their current progress (a frontier
					// kept locally per target), and built-in names
					for og := 0; og < q.Goroutines; og++ {
						tag := [...]string{"a", "j", "s", ""}[og%4]
						if tag == "" || og == g {
							continue
						}
						for d := int64(-1); d < 4; d++ {
							idx := frontier[og] + d
							if idx < 0 {
								continue
							}
							name := raceName(q.Seed, og, idx, tag)
							s, ok := object.SymHash2Str(fnv64a(name))
							atomic.AddInt64(&convs, 1)
							if ok {
								if ps, isStr := s.(*object.PanStr); !isStr || ps.Value != name {
									mismatch(fmt.Sprintf("goroutine %d: SymHash2Str(hash of %q) gave %s", g, name, s.Inspect()))
								}
								if idx >= frontier[og] {
									frontier[og] = idx + 1
								}
							}
						}
					}
					bn := raceBuiltinNames[int(i)%len(raceBuiltinNames)]
					if s, ok := object.SymHash2Str(fnv64a(bn)); !ok || s.(*object.PanStr).Value != bn {
						mismatch(fmt.Sprintf("goroutine %d: SymHash2Str(hash of built-in name %q) failed", g, bn))
					}
					atomic.AddInt64(&convs, 1)
					// a name this goroutine interns itself must convert back
					n := raceName(q.Seed, g, i, "s")
					h := object.GetSymHash(n)
					atomic.AddInt64(&interned, 1)
					s, ok := object.SymHash2Str(h)
					if !ok || s.(*object.PanStr).Value != n || h != fnv64a(n) {
						mismatch(fmt.Sprintf("goroutine %d: SymHash2Str(GetSymHash(%q)) failed", g, n))
					}
				case 3:
					expect("\"a := 1; b := 2\".evalEnv.keys", `["a", "b"]`)
					expect("{b: 1, a: 2}.keys", `["a", "b"]`)
					expect("{a: 1, b: {c: 'd}}.repr", "`{\"a\": 1, \"b\": {\"c\": \"d\"}}`")
					expect("%{'a: 1}.keys", `["a"]`)
					// standard modules imported by concurrent evaluations (import results are converted back to names)
					expect("import(\"http\").keys", `["C", "Client", "Response", "S", "Server"]`)
					expect("import(\"dummy\").keys.len >= 0", "true")
					atomic.AddInt64(&convs, 6)
				}
			}
			rep.Iterations[g] = i
		}(g)
	}
	wg.Wait()
	rep.Evaluations, rep.Interned, rep.Conversions = evals, interned, convs
	return rep
}
