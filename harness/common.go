package main

import (
	"bufio"
	"bytes"
	"encoding/json"
	"fmt"
	"io"
	"os"
	"runtime/debug"
	"runtime/metrics"
	"strings"
	"sync"
	"sync/atomic"
	"time"

	"github.com/Syuparn/pangaea/ast"
	"github.com/Syuparn/pangaea/di"
	"github.com/Syuparn/pangaea/evaluator"
	"github.com/Syuparn/pangaea/object"
	"github.com/Syuparn/pangaea/parser"
)

// newEnv builds a global env exactly as runscript.setup does.
func newEnv(in io.Reader, out io.Writer) *object.Env {
	env := object.NewEnvWithConsts()
	env.InjectIO(in, out)
	env.SetSourceFilePath("")
	di.InjectBuiltInProps(env)
	env.InjectFrom(object.BuiltInKernelObj)
	return env
}

// evalFuel bounds the number of Eval steps of one evaluation (hook: build tag verif).
var evalFuel int64 = 20000

type evalResult struct {
	Kind   string `json:"kind"` // value | error | syntax | panic
	Type   string `json:"type,omitempty"`
	Repr   string `json:"repr,omitempty"`
	ErrK   string `json:"errk,omitempty"`
	ErrMsg string `json:"errmsg,omitempty"`
	Trace  string `json:"trace,omitempty"`
	Out    string `json:"out"`
	Panic  string `json:"panic,omitempty"`
	Site   string `json:"site,omitempty"`
	Stack  string `json:"stack,omitempty"`
}

// panicSite returns the innermost function of the pangaea module on the stack
// (e.g. "evaluator.strRange"), independent of where the repository is checked out.
func panicSite(stack string) string {
	const mod = "github.com/Syuparn/pangaea/"
	for _, l := range strings.Split(stack, "\n") {
		l = strings.TrimSpace(l)
		if strings.HasPrefix(l, mod) {
			l = strings.TrimPrefix(l, mod)
			if i := strings.LastIndex(l, "("); i > 0 {
				l = l[:i]
			}
			return l
		}
	}
	return "?"
}

// Watchdog for every evaluation made through evalIn: the evaluation fuel bounds the number of Eval
// steps, but a loop inside a Go built-in (`[] * 9223372036854775807`, a huge range turned into an array)
// does not tick. When one evaluation runs longer than the limit or the heap grows beyond the limit, the
// process flushes what it has answered, writes {"watchdog":"timeout"|"memory"} and exits with status 3;
// the driver (pv._harness1) records that request as discarded and restarts on the rest.
var wdSince atomic.Int64 // unix nanos of the running evaluation, 0 when idle
var wdOnce sync.Once

func wdStart() {
	wdOnce.Do(func() {
		limit := 20 * time.Second
		heapLimit := uint64(3) << 30
		if v := os.Getenv("PANHARNESS_LIMIT_MS"); v != "" {
			var ms int
			fmt.Sscan(v, &ms)
			if ms > 0 {
				limit = time.Duration(ms) * time.Millisecond
			}
		}
		go func() {
			sample := []metrics.Sample{{Name: "/memory/classes/heap/objects:bytes"}}
			for {
				time.Sleep(20 * time.Millisecond)
				t0 := wdSince.Load()
				if t0 == 0 {
					continue
				}
				metrics.Read(sample)
				kind := ""
				if time.Duration(time.Now().UnixNano()-t0) > limit {
					kind = "timeout"
				} else if sample[0].Value.Uint64() > heapLimit {
					kind = "memory"
				}
				if kind != "" {
					stdout.Flush()
					os.Stdout.WriteString("{\"watchdog\":\"" + kind + "\"}\n")
					os.Exit(3)
				}
			}
		}()
	})
}

// evalIn parses and evaluates src in env (the caller decides which scope).
// noFuel: the race harness evaluates fixed, terminating programs from many goroutines; the fuel counter (one global of the
// verif hook) would itself be a data race there, so it stays at -1 (unlimited: verifTick only reads it)
var noFuel bool

func evalIn(src string, env *object.Env, out *bytes.Buffer) (res evalResult) {
	defer func() {
		if r := recover(); r != nil {
			wdSince.Store(0)
			st := string(debug.Stack())
			res = evalResult{Kind: "panic", Panic: fmt.Sprint(r), Site: panicSite(st), Stack: truncate(st, 4000), Out: out.String()}
		}
	}()
	node, err := parser.Parse(parser.NewReader(strings.NewReader(src), ""))
	if err != nil {
		return evalResult{Kind: "syntax", ErrMsg: err.Error(), Out: out.String()}
	}
	wdStart()
	wdSince.Store(time.Now().UnixNano())
	if !noFuel {
		evaluator.VerifFuel = evalFuel
	}
	v := evaluator.Eval(node, env)
	if !noFuel {
		evaluator.VerifFuel = -1
	}
	wdSince.Store(0)
	r := describe(v, out)
	if r.Kind == "error" && r.ErrMsg == evaluator.VerifOutOfFuelMsg {
		r.Kind = "fuel"
	}
	return r
}

func describe(v object.PanObject, out *bytes.Buffer) evalResult {
	if e, ok := v.(*object.PanErr); ok {
		return evalResult{Kind: "error", ErrK: e.Kind(), ErrMsg: e.Message(), Trace: e.StackTrace, Out: out.String()}
	}
	if v == nil {
		return evalResult{Kind: "value", Type: "GoNil", Repr: "<go nil>", Out: out.String()}
	}
	return evalResult{Kind: "value", Type: string(v.Type()), Repr: v.Inspect(), Out: out.String()}
}

func readLines(f func(line []byte)) {
	sc := bufio.NewScanner(os.Stdin)
	sc.Buffer(make([]byte, 1<<20), 1<<28)
	for sc.Scan() {
		b := sc.Bytes()
		if len(bytes.TrimSpace(b)) == 0 {
			continue
		}
		f(b)
	}
}

var stdout = bufio.NewWriterSize(os.Stdout, 1<<20)

func emit(v interface{}) {
	b, err := json.Marshal(v)
	if err != nil {
		panic(err)
	}
	stdout.Write(b)
	stdout.WriteByte('\n')
}

func parseString(src string) (*ast.Program, error) {
	return parser.Parse(parser.NewReader(strings.NewReader(src), ""))
}
