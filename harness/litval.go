package main

import (
	"bytes"
	"encoding/hex"
	"encoding/json"
	"fmt"
	"math"
	"strings"

	"github.com/Syuparn/pangaea/ast"
	"github.com/Syuparn/pangaea/evaluator"
	"github.com/Syuparn/pangaea/object"
)

// litval (C17):
//
//	{"src":"<literal>"}  evaluates the one-literal program and answers
//	   {"r":"i:<int>"} | {"r":"f:<16 hex digits of the float64 bits>"} | {"r":"s:<hex of the bytes>"}
//	   | {"r":"x","k":"syntax"|"error:<Kind>"}   (rejected)  | {"r":"o:<type>"} | {"r":"p:<panic>"}
//	{"name":"<ident>"}   evaluates `NAME := 1; NAME`, `{NAME: 1}.NAME`, `'NAME` and parses the bare
//	   program `NAME`; answers {"var":bool,"prop":bool,"sym":bool,"tok":bool} — value 1 / value 1 /
//	   the str NAME / the program is exactly one identifier expression whose name is NAME.
type litvalReq struct {
	Src  *string `json:"src"`
	Name *string `json:"name"`
}

func litOne(src string, env *object.Env) (r, k string) {
	defer func() {
		if p := recover(); p != nil {
			r, k = "p:"+fmt.Sprint(p), ""
		}
	}()
	node, err := parseString(src)
	if err != nil {
		return "x", "syntax"
	}
	v := evaluator.Eval(node, object.NewEnclosedEnv(env))
	switch v := v.(type) {
	case *object.PanErr:
		return "x", "error:" + v.Kind()
	case *object.PanInt:
		return fmt.Sprintf("i:%d", v.Value), ""
	case *object.PanFloat:
		return fmt.Sprintf("f:%016x", math.Float64bits(v.Value)), ""
	case *object.PanStr:
		return "s:" + hex.EncodeToString([]byte(v.Value)), ""
	case *object.PanBool:
		return "o:BoolType:" + v.Inspect(), ""
	case nil:
		return "o:GoNil", ""
	}
	return "o:" + string(v.Type()), ""
}

func isOneIdent(src string) (ok bool) {
	defer func() {
		if p := recover(); p != nil {
			ok = false
		}
	}()
	prog, err := parseString(src)
	if err != nil || prog == nil || len(prog.Stmts) != 1 {
		return false
	}
	es, isExpr := prog.Stmts[0].(*ast.ExprStmt)
	if !isExpr {
		return false
	}
	id, isIdent := es.Expr.(*ast.Ident)
	return isIdent && id.Value == src
}

func init() { register("litval", cmdLitval) }

func cmdLitval() {
	var out bytes.Buffer
	env := newEnv(strings.NewReader(""), &out)
	readLines(func(line []byte) {
		var q litvalReq
		if err := json.Unmarshal(line, &q); err != nil {
			panic(err)
		}
		out.Reset()
		if q.Name != nil {
			n := *q.Name
			r1, _ := litOne(n+" := 1; "+n, env)
			r2, _ := litOne("{"+n+": 1}."+n, env)
			r3, _ := litOne("'"+n, env)
			// the name is listed by keys (private names with private?: true) and is a symbol
			r4, _ := litOne("{"+n+": 1}.keys(private?: true).has?('"+n+")", env)
			r5, _ := litOne("{"+n+": 1}.keys.has?('"+n+")", env)
			r6, _ := litOne("'"+n+".sym?", env)
			emit(map[string]interface{}{
				"listed":  r4 == "o:BoolType:true",
				"public":  r5 == "o:BoolType:true",
				"symp":    r6 == "o:BoolType:true",
				"rawlist": []string{r4, r5, r6},
				"var":  r1 == "i:1",
				"prop": r2 == "i:1",
				"sym":  r3 == "s:"+hex.EncodeToString([]byte(n)),
				"tok":  isOneIdent(n),
				"raw":  []string{r1, r2, r3},
			})
			return
		}
		r, k := litOne(*q.Src, env)
		res := map[string]string{"r": r}
		if k != "" {
			res["k"] = k
		}
		emit(res)
	})
	stdout.Flush()
}
