package main

import (
	"encoding/json"
	"fmt"
	"go/ast"
	"go/constant"
	"go/parser"
	"go/token"
	"sort"
)

// dumptables: {"ygo":"/path/to/y.go"} ->
//
//	{"ok":true,"arrays":{"yyExca":[...],"yyAct":[...],...},"toknames":[...],
//	 "consts":{"INT":57346,...,"yyLast":2531,...}}
//
// Reads a goyacc-generated parser with go/parser (no evaluation of the file): every
// package-level  var yyXxx = [...]T{ literals }  and every integer constant.
// Used by tools/c02.py to compare the checked-in parser/y.go with a fresh goyacc run.
type dumptablesReq struct {
	Ygo string `json:"ygo"`
}

func init() { register("dumptables", cmdDumptables) }

func constInt(e ast.Expr, consts map[string]int64) (int64, bool) {
	switch e := e.(type) {
	case *ast.BasicLit:
		if e.Kind == token.INT || e.Kind == token.CHAR {
			v := constant.MakeFromLiteral(e.Value, e.Kind, 0)
			if v.Kind() == constant.Int {
				n, ok := constant.Int64Val(v)
				return n, ok
			}
		}
	case *ast.UnaryExpr:
		if n, ok := constInt(e.X, consts); ok {
			switch e.Op {
			case token.SUB:
				return -n, true
			case token.ADD:
				return n, true
			}
		}
	case *ast.ParenExpr:
		return constInt(e.X, consts)
	case *ast.Ident:
		n, ok := consts[e.Name]
		return n, ok
	case *ast.BinaryExpr:
		a, ok1 := constInt(e.X, consts)
		b, ok2 := constInt(e.Y, consts)
		if ok1 && ok2 {
			switch e.Op {
			case token.ADD:
				return a + b, true
			case token.SUB:
				return a - b, true
			case token.MUL:
				return a * b, true
			}
		}
	}
	return 0, false
}

func dumpTables(path string) (res map[string]interface{}) {
	defer func() {
		if r := recover(); r != nil {
			res = map[string]interface{}{"ok": false, "err": fmt.Sprint(r)}
		}
	}()
	fset := token.NewFileSet()
	f, err := parser.ParseFile(fset, path, nil, parser.SkipObjectResolution)
	if err != nil {
		return map[string]interface{}{"ok": false, "err": err.Error()}
	}
	consts := map[string]int64{}
	arrays := map[string][]int64{}
	var toknames []string
	for _, d := range f.Decls {
		gd, ok := d.(*ast.GenDecl)
		if !ok {
			continue
		}
		for _, sp := range gd.Specs {
			vs, ok := sp.(*ast.ValueSpec)
			if !ok {
				continue
			}
			if gd.Tok == token.CONST {
				for i, name := range vs.Names {
					if i < len(vs.Values) {
						if n, ok := constInt(vs.Values[i], consts); ok {
							consts[name.Name] = n
						}
					}
				}
				continue
			}
			if gd.Tok != token.VAR || len(vs.Names) != 1 || len(vs.Values) != 1 {
				continue
			}
			cl, ok := vs.Values[0].(*ast.CompositeLit)
			if !ok {
				continue
			}
			name := vs.Names[0].Name
			if name == "yyToknames" {
				for _, e := range cl.Elts {
					if bl, ok := e.(*ast.BasicLit); ok && bl.Kind == token.STRING {
						toknames = append(toknames, constant.StringVal(constant.MakeFromLiteral(bl.Value, token.STRING, 0)))
					}
				}
				continue
			}
			vals := []int64{}
			good := len(cl.Elts) > 0
			for _, e := range cl.Elts {
				n, ok := constInt(e, consts)
				if !ok {
					good = false
					break
				}
				vals = append(vals, n)
			}
			if good {
				arrays[name] = vals
			}
		}
	}
	names := []string{}
	for k := range arrays {
		names = append(names, k)
	}
	sort.Strings(names)
	return map[string]interface{}{"ok": true, "arrays": arrays, "array_names": names,
		"toknames": toknames, "consts": consts}
}

func cmdDumptables() {
	readLines(func(line []byte) {
		var q dumptablesReq
		if err := json.Unmarshal(line, &q); err != nil {
			panic(err)
		}
		emit(dumpTables(q.Ygo))
	})
	stdout.Flush()
}
