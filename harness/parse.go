package main

import (
	"encoding/json"
	"fmt"
)

// parse: {"src":"a + b * c"} -> {"ok":true,"ast":"(a + (b * c))"}
//
//	| {"ok":false,"err":"..."}   (syntax error or panic in the parser)
//
// The observable of C02 is ast.Program.String() of parser.Parse's output.
type parseReq struct {
	Src string `json:"src"`
}

type parseRes struct {
	Ok    bool   `json:"ok"`
	Ast   string `json:"ast,omitempty"`
	Err   string `json:"err,omitempty"`
	Panic bool   `json:"panic,omitempty"`
}

func init() { register("parse", cmdParse) }

func parseOne(src string) (res parseRes) {
	defer func() {
		if r := recover(); r != nil {
			res = parseRes{Ok: false, Err: fmt.Sprint(r), Panic: true}
		}
	}()
	prog, err := parseString(src)
	if err != nil {
		return parseRes{Ok: false, Err: err.Error()}
	}
	if prog == nil {
		return parseRes{Ok: false, Err: "nil program"}
	}
	return parseRes{Ok: true, Ast: prog.String()}
}

func cmdParse() {
	readLines(func(line []byte) {
		var q parseReq
		if err := json.Unmarshal(line, &q); err != nil {
			panic(err)
		}
		emit(parseOne(q.Src))
	})
	stdout.Flush()
}
