// Command panharness drives the Pangaea implementation in /repo for the
// correspondence checks of /verif. One sub-command per kind of observation;
// every sub-command reads JSON lines on stdin and writes JSON lines on stdout.
package main

import (
	"fmt"
	"os"
)

func main() {
	if len(os.Args) < 2 {
		fmt.Fprintln(os.Stderr, "usage: panharness <subcommand>")
		os.Exit(2)
	}
	switch os.Args[1] {
	case "intop":
		cmdIntop()
	default:
		fmt.Fprintln(os.Stderr, "unknown subcommand", os.Args[1])
		os.Exit(2)
	}
}
