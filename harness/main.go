// Command panharness drives the Pangaea implementation in /repo for the
// correspondence checks of /verif. One sub-command per kind of observation;
// every sub-command reads JSON lines on stdin and writes JSON lines on stdout.
// Sub-commands register themselves in init() (see intop.go) so that adding one
// never edits this file.
package main

import (
	"fmt"
	"os"
	"sort"
)

var commands = map[string]func(){}

func register(name string, f func()) { commands[name] = f }

func main() {
	if len(os.Args) >= 2 {
		if f, ok := commands[os.Args[1]]; ok {
			f()
			stdout.Flush()
			return
		}
	}
	names := []string{}
	for n := range commands {
		names = append(names, n)
	}
	sort.Strings(names)
	fmt.Fprintln(os.Stderr, "usage: panharness <subcommand>; known:", names)
	os.Exit(2)
}
