package main

import (
	"bytes"
	"crypto/sha1"
	"encoding/hex"
	"encoding/json"
	"fmt"
	"os"
	"runtime/debug"
	"sort"
	"strings"
	"time"

	"github.com/Syuparn/pangaea/evaluator"
	"github.com/Syuparn/pangaea/object"
	"github.com/Syuparn/pangaea/parser"
)

// history (behavioural tie of C06): a request is one program history, a list of
// top-level statements. They are evaluated ONE BY ONE in one env (an enclosed env of
// the process-wide global env); after EACH statement a deep fingerprint of every
// variable defined so far in that env is taken. Reply per statement: result / error of
// the statement, var -> fingerprint hash, and the list of variables whose fingerprint
// differs from the one taken when they were first seen (with both texts).
//
//	{"stmts": ["v0 := [1,2,3]", "v1 := v0 + [4]", …], "final": true}
//	-> {"steps": [{"res": {...}, "fps": {"v0": "ab12…"}, "changed": [{"var","step0","before","after"}]}, …],
//	    "final": {"v0": {"type","val","proto"}}, "stopped": "changed"|"big"|"timeout"|""}
//
// A fingerprint is: Go type, Inspect() text, the prototype chain by identity (serial
// ids of the pointers, plus the contents of prototypes created by the history), and
// recursively the fingerprints of elements / pair values / range bounds.
//
//	{"listprops": ["Arr", "Str"]}  -> {"props": {"Arr": [{"name","owner","kind"}, …]}}
type histReq struct {
	Stmts     []string `json:"stmts"`
	Final     bool     `json:"final"`
	ListProps []string `json:"listprops"`
	KeepGoing bool     `json:"keepgoing"` // do not stop at the first change
}

type histStep struct {
	Res     evalResult        `json:"res"`
	Fps     map[string]string `json:"fps"`
	Changed []histChange      `json:"changed,omitempty"`
}

type histChange struct {
	Var    string `json:"var"`
	Since  int    `json:"since"` // step at which the variable was first seen
	Before string `json:"before"`
	After  string `json:"after"`
}

func init() { register("history", cmdHistory) }

const fpMaxNodes = 20000
const fpMaxDepth = 48

type fper struct {
	ids      map[object.PanObject]int
	builtins map[object.PanObject]string
	nodes    int
	deep     bool
}

func (f *fper) id(o object.PanObject) string {
	if n, ok := f.builtins[o]; ok {
		return n
	}
	if i, ok := f.ids[o]; ok {
		return fmt.Sprintf("#%d", i)
	}
	i := len(f.ids)
	f.ids[o] = i
	return fmt.Sprintf("#%d", i)
}

// chain renders the prototype chain of v by identity; prototypes that the history
// created are rendered with their contents as well.
func (f *fper) chain(v object.PanObject, depth int) string {
	var b strings.Builder
	b.WriteString("<")
	p := v.Proto()
	for i := 0; p != nil && i < 32; i++ {
		if i > 0 {
			b.WriteString(" ")
		}
		b.WriteString(f.id(p))
		if _, ok := f.builtins[p]; ok {
			// the chain above a built-in object is fixed at start-up
			break
		}
		b.WriteString("=")
		b.WriteString(f.fp(p, depth+1, false))
		break // fp(p) contains p's own chain
	}
	b.WriteString(">")
	return b.String()
}

func (f *fper) fp(v object.PanObject, depth int, top bool) string {
	f.nodes++
	if v == nil {
		return "<go nil>"
	}
	if depth > fpMaxDepth || f.nodes > fpMaxNodes {
		f.deep = true
		return "<deep>"
	}
	if n, ok := f.builtins[v]; ok && !top {
		return "builtin:" + n
	}
	var b strings.Builder
	switch x := v.(type) {
	case *object.PanArr:
		b.WriteString("Arr")
		b.WriteString(f.chain(v, depth))
		b.WriteString("[")
		for i, e := range x.Elems {
			if i > 0 {
				b.WriteString(", ")
			}
			b.WriteString(f.fp(e, depth+1, false))
		}
		b.WriteString("]")
	case *object.PanObj:
		b.WriteString("Obj")
		b.WriteString(f.chain(v, depth))
		if _, ok := f.builtins[v]; ok {
			// a built-in object held in a variable: keys only (its props are code)
			ks := []string{}
			for _, p := range *x.Pairs {
				ks = append(ks, p.Key.Inspect())
			}
			sort.Strings(ks)
			b.WriteString("{keys " + strings.Join(ks, ",") + "}")
			break
		}
		type kv struct{ k, v string }
		ps := []kv{}
		for _, p := range *x.Pairs {
			ps = append(ps, kv{p.Key.Inspect(), f.fp(p.Value, depth+1, false)})
		}
		sort.Slice(ps, func(i, j int) bool { return ps[i].k < ps[j].k })
		b.WriteString("{")
		for i, p := range ps {
			if i > 0 {
				b.WriteString(", ")
			}
			b.WriteString(p.k + ": " + p.v)
		}
		b.WriteString("}")
		pub, priv := []string{}, []string{}
		for _, h := range *x.Keys {
			if s, ok := object.SymHash2Str(h); ok {
				pub = append(pub, s.Inspect())
			}
		}
		for _, h := range *x.PrivateKeys {
			if s, ok := object.SymHash2Str(h); ok {
				priv = append(priv, s.Inspect())
			}
		}
		b.WriteString("keys[" + strings.Join(pub, ",") + "|" + strings.Join(priv, ",") + "]")
	case *object.PanMap:
		b.WriteString("Map")
		b.WriteString(f.chain(v, depth))
		type kv struct{ k, v string }
		ps := []kv{}
		for _, p := range *x.Pairs {
			ps = append(ps, kv{f.fp(p.Key, depth+1, false), f.fp(p.Value, depth+1, false)})
		}
		sort.Slice(ps, func(i, j int) bool { return ps[i].k < ps[j].k })
		b.WriteString("%{")
		for _, p := range ps {
			b.WriteString(p.k + ": " + p.v + ", ")
		}
		b.WriteString("|")
		for _, p := range *x.NonHashablePairs {
			b.WriteString(f.fp(p.Key, depth+1, false) + ": " + f.fp(p.Value, depth+1, false) + ", ")
		}
		b.WriteString("}")
		// iteration order of the scalar keys is part of what the map contains
		b.WriteString("order[")
		for _, h := range *x.HashKeys {
			if p, ok := (*x.Pairs)[h]; ok {
				b.WriteString(p.Key.Inspect() + ",")
			} else {
				b.WriteString("?,")
			}
		}
		b.WriteString("]")
	case *object.PanRange:
		b.WriteString("Range")
		b.WriteString(f.chain(v, depth))
		b.WriteString("(" + f.fp(x.Start, depth+1, false) + ":" + f.fp(x.Stop, depth+1, false) + ":" + f.fp(x.Step, depth+1, false) + ")")
	default:
		b.WriteString(string(v.Type()))
		b.WriteString(f.chain(v, depth))
		b.WriteString(":")
		b.WriteString(v.Inspect())
	}
	return b.String()
}

// fingerprint = structural walk (cycle/size guarded) + Inspect() when the walk ended.
func (f *fper) fingerprint(v object.PanObject) (string, bool) {
	f.nodes, f.deep = 0, false
	s := f.fp(v, 0, true)
	if f.deep {
		return s, true
	}
	if _, isB := f.builtins[v]; !isB {
		switch v.(type) {
		case *object.PanArr, *object.PanObj, *object.PanMap, *object.PanRange:
			s += " prints " + v.Inspect()
		}
	}
	return s, false
}

func hash12(s string) string {
	h := sha1.Sum([]byte(s))
	return hex.EncodeToString(h[:6])
}

// structured value of the modelled subset, for the correspondence with Heap/GoSlices.v
func (f *fper) model(v object.PanObject, vars map[object.PanObject]string, depth int) interface{} {
	if depth > 24 {
		return map[string]interface{}{"x": "deep"}
	}
	proto := func() interface{} {
		p := v.Proto()
		if p == nil {
			return "nil"
		}
		if n, ok := vars[p]; ok {
			return map[string]string{"var": n}
		}
		if n, ok := f.builtins[p]; ok {
			return n
		}
		return "?"
	}
	switch x := v.(type) {
	case *object.PanInt:
		if x.Proto() == object.BuiltInIntObj {
			return map[string]interface{}{"i": fmt.Sprint(x.Value)}
		}
	case *object.PanNil:
		return map[string]interface{}{"n": 1}
	case *object.PanArr:
		es := []interface{}{}
		for _, e := range x.Elems {
			es = append(es, f.model(e, vars, depth+1))
		}
		return map[string]interface{}{"a": es, "p": proto()}
	case *object.PanObj:
		if _, ok := f.builtins[v]; ok {
			return map[string]interface{}{"x": "builtin"}
		}
		type kv struct {
			k string
			v interface{}
		}
		ps := []kv{}
		for _, p := range *x.Pairs {
			ks, ok := p.Key.(*object.PanStr)
			if !ok {
				return map[string]interface{}{"x": "objkey"}
			}
			ps = append(ps, kv{ks.Value, f.model(p.Value, vars, depth+1)})
		}
		sort.Slice(ps, func(i, j int) bool { return ps[i].k < ps[j].k })
		out := []interface{}{}
		for _, p := range ps {
			out = append(out, []interface{}{p.k, p.v})
		}
		return map[string]interface{}{"o": out, "p": proto()}
	case *object.PanMap:
		if len(*x.NonHashablePairs) > 0 {
			return map[string]interface{}{"x": "mapkey"}
		}
		out := []interface{}{}
		for _, h := range *x.HashKeys {
			p := (*x.Pairs)[h]
			ki, ok := p.Key.(*object.PanInt)
			if !ok {
				return map[string]interface{}{"x": "mapkey"}
			}
			out = append(out, []interface{}{fmt.Sprint(ki.Value), f.model(p.Value, vars, depth+1)})
		}
		return map[string]interface{}{"m": out, "p": proto()}
	}
	return map[string]interface{}{"x": string(v.Type())}
}

func cmdHistory() {
	var out bytes.Buffer
	global := newEnv(strings.NewReader(""), &out)
	builtins := map[object.PanObject]string{}
	for h, v := range global.Store {
		if s, ok := object.SymHash2Str(h); ok {
			name := s.(*object.PanStr).Value
			if _, isObj := v.(*object.PanObj); isObj {
				if old, dup := builtins[v]; !dup || name < old {
					builtins[v] = name
				}
			}
		}
	}
	aborted := false
	readLines(func(line []byte) {
		var q histReq
		if err := json.Unmarshal(line, &q); err != nil {
			panic(err)
		}
		if aborted {
			emit(map[string]interface{}{"skipped": true})
			return
		}
		if q.ListProps != nil {
			emit(map[string]interface{}{"props": listProps(global, q.ListProps, builtins)})
			return
		}
		done := make(chan map[string]interface{}, 1)
		cur := make(chan string, 64)
		go func() { done <- runHistory(q, global, builtins, &out, cur) }()
		var reply map[string]interface{}
		last := ""
		timer := time.NewTimer(8 * time.Second)
	wait:
		for {
			select {
			case reply = <-done:
				break wait
			case s := <-cur:
				last = s
				if !timer.Stop() {
					select {
					case <-timer.C:
					default:
					}
				}
				timer.Reset(8 * time.Second)
			case <-timer.C:
				// a statement does not terminate: answer what we know and give up the
				// process (the goroutine cannot be stopped); the driver resubmits the rest
				emit(map[string]interface{}{"stopped": "timeout", "timeout_stmt": last, "steps": []interface{}{}})
				aborted = true
				break wait
			}
		}
		if !aborted {
			emit(reply)
		}
	})
	stdout.Flush()
	if aborted {
		os.Exit(0)
	}
}

func runHistory(q histReq, global *object.Env, builtins map[object.PanObject]string, out *bytes.Buffer, cur chan string) map[string]interface{} {
	env := object.NewEnclosedEnv(global)
	f := &fper{ids: map[object.PanObject]int{}, builtins: builtins}
	first := map[string]string{} // var -> full fingerprint when first seen
	since := map[string]int{}
	steps := []histStep{}
	stopped := ""
	for i, src := range q.Stmts {
		select {
		case cur <- src:
		default:
		}
		out.Reset()
		res := evalGuarded(src, env, out, f)
		if len(res.Repr) > 300 {
			res.Repr = res.Repr[:300] + "…"
		}
		res.Trace = ""
		st := histStep{Res: res, Fps: map[string]string{}}
		names := []string{}
		byName := map[string]object.PanObject{}
		for h, v := range env.Store {
			if s, ok := object.SymHash2Str(h); ok {
				n := s.(*object.PanStr).Value
				names = append(names, n)
				byName[n] = v
			}
		}
		sort.Strings(names)
		for _, n := range names {
			fp, deep := f.fingerprint(byName[n])
			if deep {
				if _, seen := first[n]; !seen {
					stopped = "big"
				}
			}
			st.Fps[n] = hash12(fp)
			if old, seen := first[n]; !seen {
				first[n] = fp
				since[n] = i
			} else if old != fp {
				st.Changed = append(st.Changed, histChange{Var: n, Since: since[n], Before: clip(old), After: clip(fp)})
			}
		}
		steps = append(steps, st)
		if len(st.Changed) > 0 && !q.KeepGoing {
			stopped = "changed"
		}
		if res.Kind == "panic" {
			stopped = "panic"
		}
		// keep the next statement cheap: Int is iterable up to its value, Str by rune
		if v, ok := byName[fmt.Sprintf("v%d", i)]; ok {
			switch x := v.(type) {
			case *object.PanInt:
				if x.Value > 1000 || x.Value < -1000 {
					stopped = "big"
				}
			case *object.PanStr:
				if len(x.Value) > 20000 {
					stopped = "big"
				}
			}
		}
		if stopped != "" {
			break
		}
	}
	reply := map[string]interface{}{"steps": steps, "stopped": stopped}
	if q.Final && stopped == "" {
		vars := map[object.PanObject]string{}
		names := []string{}
		byName := map[string]object.PanObject{}
		for h, v := range env.Store {
			if s, ok := object.SymHash2Str(h); ok {
				n := s.(*object.PanStr).Value
				names = append(names, n)
				byName[n] = v
			}
		}
		sort.Slice(names, func(i, j int) bool {
			if len(names[i]) != len(names[j]) {
				return len(names[i]) < len(names[j])
			}
			return names[i] < names[j]
		})
		for _, n := range names {
			v := byName[n]
			switch v.(type) {
			case *object.PanArr, *object.PanObj, *object.PanMap:
				if _, dup := vars[v]; !dup {
					vars[v] = n
				}
			}
		}
		fin := map[string]interface{}{}
		for _, n := range names {
			v := byName[n]
			m := f.model(v, vars, 0)
			fin[n] = map[string]interface{}{"type": string(v.Type()), "val": m}
		}
		reply["final"] = fin
	}
	return reply
}

// evalGuarded is evalIn, except that the result is only printed (Inspect) after a
// size- and depth-guarded walk: the original Arr#+ can build CYCLIC arrays, and
// Inspect on those overflows the Go stack (fatal, not recoverable).
func evalGuarded(src string, env *object.Env, out *bytes.Buffer, f *fper) (res evalResult) {
	defer func() {
		if r := recover(); r != nil {
			st := string(debug.Stack())
			res = evalResult{Kind: "panic", Panic: fmt.Sprint(r), Site: panicSite(st), Out: out.String()}
		}
	}()
	node, err := parser.Parse(parser.NewReader(strings.NewReader(src), ""))
	if err != nil {
		return evalResult{Kind: "syntax", ErrMsg: err.Error(), Out: out.String()}
	}
	v := evaluator.Eval(node, env)
	if v != nil {
		if _, isErr := v.(*object.PanErr); !isErr {
			f.nodes, f.deep = 0, false
			f.fp(v, 0, true)
			if f.deep {
				return evalResult{Kind: "value", Type: string(v.Type()), Repr: "<deep or cyclic>", Out: out.String()}
			}
		}
	}
	return describe(v, out)
}

func clip(s string) string {
	if len(s) > 1500 {
		return s[:1500] + "…"
	}
	return s
}

// listProps: names of the props visible from each named built-in object (own pairs
// and those of its prototype chain), with the owner and the kind of the value.
func listProps(global *object.Env, names []string, builtins map[object.PanObject]string) map[string]interface{} {
	res := map[string]interface{}{}
	for _, n := range names {
		v, ok := global.Get(object.GetSymHash(n))
		if !ok {
			continue
		}
		seen := map[string]bool{}
		list := []map[string]string{}
		for p := v; p != nil; p = p.Proto() {
			o, ok := p.(*object.PanObj)
			if !ok {
				break
			}
			owner := builtins[p]
			ks := []string{}
			vals := map[string]object.PanObject{}
			for _, pair := range *o.Pairs {
				if s, ok := pair.Key.(*object.PanStr); ok {
					ks = append(ks, s.Value)
					vals[s.Value] = pair.Value
				}
			}
			sort.Strings(ks)
			for _, k := range ks {
				if seen[k] {
					continue
				}
				seen[k] = true
				kind := string(vals[k].Type())
				list = append(list, map[string]string{"name": k, "owner": owner, "kind": kind})
			}
		}
		res[n] = list
	}
	return res
}
