package main

import (
	"bytes"
	"fmt"
	"math"
	"sort"
	"strings"

	"github.com/Syuparn/pangaea/object"
)

// dumpworld: prints (one JSON object) the interpreter's start-up world as the
// running implementation built it: every built-in object reachable from the global
// scope with its prototype link, zero value and properties (Go built-ins by name,
// native functions as PanCore syntax, constants as values) and the global scope.
// tools/world.py turns it into coq/gen/World.v on every run.

type worldPair struct {
	Key  string `json:"key"`
	Kind string `json:"kind"` // builtin | func | const
	Coq  string `json:"coq"`  // val term (const), closure term (func), or builtin name
}

type worldObj struct {
	ID    int         `json:"id"`
	Name  string      `json:"name"`
	Proto int         `json:"proto"` // -1: none
	Zero  string      `json:"zero"`
	Pairs []worldPair `json:"pairs"`
}

type world struct {
	Clos    []string    `json:"clos"`
	Objs    []worldObj  `json:"objs"`
	Globals []worldPair `json:"globals"`
	Unsup   []string    `json:"unsup"`
}

type worldBuilder struct {
	ids      map[*object.PanObj]int
	order    []*object.PanObj
	names    map[*object.PanObj]string
	builtins map[*object.PanBuiltIn]string
	unsup    []string
	cloIDs   map[*object.PanFunc]int
	clos     []string
}

func (w *worldBuilder) cloRef(f *object.PanFunc) string {
	id, ok := w.cloIDs[f]
	if !ok {
		id = len(w.clos)
		w.cloIDs[f] = id
		w.clos = append(w.clos, "") // reserve (closures may nest through defaults)
		w.clos[id] = w.closure(f)
	}
	return fmt.Sprintf("(VFunc %d)", id)
}

func (w *worldBuilder) objID(o *object.PanObj, hint string) int {
	if id, ok := w.ids[o]; ok {
		return id
	}
	id := len(w.order)
	w.ids[o] = id
	w.order = append(w.order, o)
	w.names[o] = hint
	// make sure the prototype is registered too
	if p, ok := o.Proto().(*object.PanObj); ok && p != nil {
		w.objID(p, hint+".proto")
	}
	return id
}

func (w *worldBuilder) val(v object.PanObject) string {
	switch v := v.(type) {
	case *object.PanInt:
		return "(VInt " + w.val(v.Proto()) + " " + coqZ(v.Value) + ")"
	case *object.PanFloat:
		return fmt.Sprintf("(VFloat %d %s)", math.Float64bits(v.Value), coqStr(fmt.Sprintf("%.6f", v.Value)))
	case *object.PanStr:
		return "(VStr " + w.val(v.Proto()) + " " + coqStr(v.Value) + ")"
	case *object.PanBool:
		if v.Value {
			return "(VBool true)"
		}
		return "(VBool false)"
	case *object.PanNil:
		return "(VNil " + w.val(v.Proto()) + ")"
	case *object.PanArr:
		xs := []string{}
		for _, e := range v.Elems {
			xs = append(xs, w.val(e))
		}
		return "(VArr " + w.val(v.Proto()) + " " + coqList(xs) + ")"
	case *object.PanRange:
		return "(VRange " + w.val(v.Proto()) + " " + w.val(v.Start) + " " + w.val(v.Stop) + " " + w.val(v.Step) + ")"
	case *object.PanMap:
		if len(*v.Pairs) == 0 && len(*v.NonHashablePairs) == 0 {
			return "(VMap " + w.val(v.Proto()) + " [] [])"
		}
	case *object.PanObj:
		return fmt.Sprintf("(VObj %d)", w.objID(v, "anon"))
	case *object.PanBuiltIn:
		if n, ok := w.builtins[v]; ok {
			return "(VBuiltin (bi " + coqStr(n) + "))"
		}
		return "(VBuiltin (bi \"?\"))"
	case *object.PanFunc:
		return w.cloRef(v)
	case *object.PanErr:
		return "(VErrObj " + coqStr(v.Kind()) + " " + coqStr(v.Message()) + ")"
	case *object.PanIO:
		return "VIO"
	}
	w.unsup = append(w.unsup, fmt.Sprintf("%T", v))
	return "(VOther " + coqStr(fmt.Sprintf("%T", v)) + ")"
}

func init() { register("dumpworld", cmdDumpworld) }

func cmdDumpworld() {
	var out bytes.Buffer
	env := newEnv(strings.NewReader(""), &out)
	w := &worldBuilder{ids: map[*object.PanObj]int{}, names: map[*object.PanObj]string{}, builtins: map[*object.PanBuiltIn]string{}, cloIDs: map[*object.PanFunc]int{}}

	// global names in a fixed order
	type gv struct {
		name string
		v    object.PanObject
	}
	globals := []gv{}
	for h, v := range env.Store {
		s, ok := object.SymHash2Str(h)
		if !ok {
			continue
		}
		globals = append(globals, gv{s.(*object.PanStr).Value, v})
	}
	sort.Slice(globals, func(i, j int) bool { return globals[i].name < globals[j].name })
	// register objects: named globals first (stable ids), then whatever they reach
	for _, g := range globals {
		if o, ok := g.v.(*object.PanObj); ok {
			w.objID(o, g.name)
			w.names[o] = g.name
		}
	}
	if z, ok := object.BuiltInObjObj.Zero().(*object.PanObj); ok {
		w.objID(z, "%zeroObj")
		w.names[z] = "%zeroObj"
	}
	// name built-in functions by the first (object, property) that holds them
	scanned := 0
	for scanned < len(w.order) {
		o := w.order[scanned]
		scanned++
		keys := sortedKeys(o)
		for _, k := range keys {
			p := (*o.Pairs)[object.GetSymHash(k)]
			switch pv := p.Value.(type) {
			case *object.PanBuiltIn:
				if _, ok := w.builtins[pv]; !ok {
					w.builtins[pv] = w.names[o] + "#" + k
				}
			case *object.PanObj:
				w.objID(pv, w.names[o]+"."+k)
			}
		}
	}
	res := world{}
	for i := 0; i < len(w.order); i++ { // w.order may still grow through zero values
		o := w.order[i]
		wo := worldObj{ID: i, Name: w.names[o], Proto: -1}
		if p, ok := o.Proto().(*object.PanObj); ok && p != nil {
			wo.Proto = w.objID(p, "proto")
		} else if o.Proto() != nil {
			w.unsup = append(w.unsup, "non-object prototype of "+w.names[o])
		}
		if z := o.Zero(); z == object.PanObject(o) {
			wo.Zero = fmt.Sprintf("(VObj %d)", i)
		} else {
			wo.Zero = w.val(z)
		}
		for _, k := range sortedKeys(o) {
			p := (*o.Pairs)[object.GetSymHash(k)]
			wp := worldPair{Key: k}
			switch pv := p.Value.(type) {
			case *object.PanBuiltIn:
				wp.Kind, wp.Coq = "builtin", "(VBuiltin (bi "+coqStr(w.builtins[pv])+"))"
			default:
				wp.Kind, wp.Coq = "const", w.val(p.Value)
			}
			wo.Pairs = append(wo.Pairs, wp)
		}
		res.Objs = append(res.Objs, wo)
	}
	for _, g := range globals {
		wp := worldPair{Key: g.name}
		wp.Kind, wp.Coq = "const", w.val(g.v)
		res.Globals = append(res.Globals, wp)
	}
	res.Unsup = w.unsup
	res.Clos = w.clos
	emit(res)
}

// closure renders a native function as
// (mkclo kind [params] [(kw, default val)] [body stmts] "code")
func (w *worldBuilder) closure(f *object.PanFunc) string {
	kind := "KFunc"
	if f.FuncKind == object.IterFunc {
		kind = "KIter"
	}
	params := []string{}
	for _, p := range f.Args().Elems {
		s, ok := p.(*object.PanStr)
		if !ok {
			w.unsup = append(w.unsup, "pattern parameter in native function")
			params = append(params, coqStr("?"))
			continue
		}
		params = append(params, coqStr(s.Value))
	}
	kws := []string{}
	kwo := f.Kwargs()
	for _, k := range sortedAllKeys(kwo) {
		p := (*kwo.Pairs)[object.GetSymHash(k)]
		kws = append(kws, "("+coqStr(k)+", "+w.val(p.Value)+")")
	}
	body := []string{}
	for _, s := range *f.Body() {
		body = append(body, coqStmt(s))
	}
	return "(mkclo " + kind + " " + coqList(params) + " " + coqList(kws) + " " + coqList(body) + " " + coqStr(f.FuncWrapper.String()) + ")"
}

func sortedKeys(o *object.PanObj) []string { return sortedAllKeys(o) }

func sortedAllKeys(o *object.PanObj) []string {
	ks := []string{}
	for _, p := range *o.Pairs {
		if s, ok := p.Key.(*object.PanStr); ok {
			ks = append(ks, s.Value)
		}
	}
	sort.Strings(ks)
	return ks
}
