package main

import (
	"bytes"
	"encoding/json"
	"fmt"
	"math"
	"strings"

	"github.com/Syuparn/pangaea/evaluator"
	"github.com/Syuparn/pangaea/object"
	"github.com/Syuparn/pangaea/props"
)

// intop: {"op":"+","a":"1","b":"2","src":true}
// -> {"r":"i:3"} | {"r":"f:<bits hex>"} | {"r":"e:ZeroDivisionErr"} | {"r":"p:<site>"} | {"r":"o:<type>"}
// and, when src is set, the same through parsed source in "s".
type intopReq struct {
	Op  string `json:"op"`
	A   string `json:"a"`
	B   string `json:"b"`
	Src bool   `json:"src"`
}

func fmtVal(v object.PanObject) string {
	switch v := v.(type) {
	case *object.PanErr:
		return "e:" + v.Kind()
	case *object.PanInt:
		tag := "i:"
		if v.Proto() != object.BuiltInIntObj {
			tag = "I:" // int with a non-Int prototype
		}
		return fmt.Sprintf("%s%d", tag, v.Value)
	case *object.PanFloat:
		return fmt.Sprintf("f:%016x", math.Float64bits(v.Value))
	case *object.PanBool:
		return "b:" + v.Inspect()
	case *object.PanNil:
		return "n:"
	}
	return "o:" + string(v.Type())
}

func init() { register("intop", cmdIntop) }

func cmdIntop() {
	ctn := evaluator.NewPropContainer()
	ip := props.IntProps(ctn)
	var out bytes.Buffer
	env := newEnv(strings.NewReader(""), &out)
	readLines(func(line []byte) {
		var q intopReq
		if err := json.Unmarshal(line, &q); err != nil {
			panic(err)
		}
		var a, b int64
		fmt.Sscan(q.A, &a)
		fmt.Sscan(q.B, &b)
		res := map[string]string{}
		func() {
			defer func() {
				if r := recover(); r != nil {
					res["r"] = "p:" + fmt.Sprint(r)
				}
			}()
			fn := ip[q.Op].(*object.PanBuiltIn).Fn
			var v object.PanObject
			if q.Op == "-%" {
				v = fn(env, object.EmptyPanObjPtr(), object.NewPanInt(a))
			} else {
				v = fn(env, object.EmptyPanObjPtr(), object.NewPanInt(a), object.NewPanInt(b))
			}
			res["r"] = fmtVal(v)
		}()
		if q.Src {
			// operands are spelled so that no literal is out of range:
			// MinInt64 is written (-9223372036854775807 - 1)
			var src string
			if q.Op == "-%" {
				src = "-(" + spell(a) + ")"
			} else {
				src = "(" + spell(a) + ") " + q.Op + " (" + spell(b) + ")"
			}
			out.Reset()
			func() {
				defer func() {
					if r := recover(); r != nil {
						res["s"] = "p:" + fmt.Sprint(r)
					}
				}()
				node, err := parseString(src)
				if err != nil {
					res["s"] = "x:" + err.Error()
					return
				}
				res["s"] = fmtVal(evaluator.Eval(node, object.NewEnclosedEnv(env)))
			}()
		}
		emit(res)
	})
	stdout.Flush()
}

func spell(a int64) string {
	if a == math.MinInt64 {
		return "-9223372036854775807 - 1"
	}
	return fmt.Sprint(a)
}
