package main

import (
	"fmt"
	"math"
	"sort"
	"strings"

	"github.com/Syuparn/pangaea/ast"
)

// Translator from the implementation's AST (ast.Node as produced by parser.Parse)
// to terms of coq/Core/Syntax.v. Nodes PanCore does not model become (EUnsup "...").

func coqStr(s string) string {
	plain := true
	for i := 0; i < len(s); i++ {
		c := s[i]
		if c < 32 || c > 126 {
			plain = false
			break
		}
	}
	if plain {
		return `"` + strings.ReplaceAll(s, `"`, `""`) + `"`
	}
	var b strings.Builder
	b.WriteString("(sb [")
	for i := 0; i < len(s); i++ {
		if i > 0 {
			b.WriteString(";")
		}
		fmt.Fprintf(&b, "%d", s[i])
	}
	b.WriteString("])")
	return b.String()
}

func coqZ(v int64) string {
	if v < 0 {
		return fmt.Sprintf("(%d)", v)
	}
	return fmt.Sprintf("%d", v)
}

func coqList(xs []string) string {
	return "[" + strings.Join(xs, "; ") + "]"
}

func coqOpt(e ast.Expr) string {
	if isNilExpr(e) {
		return "None"
	}
	return "(Some " + coqExpr(e) + ")"
}

func isNilExpr(e ast.Expr) bool {
	if e == nil {
		return true
	}
	switch v := e.(type) {
	case *ast.Ident:
		return v == nil
	case *ast.FuncLiteral:
		return v == nil
	}
	return false
}

type kwEntry struct {
	k *ast.Ident
	v ast.Expr
}

// sortedKwargs orders keyword arguments as written in the source (the AST keeps
// them in a Go map keyed by *ast.Ident; the identifier records its position).
func sortedKwargs(m map[*ast.Ident]ast.Expr) []kwEntry {
	es := []kwEntry{}
	for k, v := range m {
		es = append(es, kwEntry{k, v})
	}
	sort.SliceStable(es, func(i, j int) bool {
		a, b := es[i].k, es[j].k
		if a.Src != nil && b.Src != nil {
			if a.Src.Pos.Line != b.Src.Pos.Line {
				return a.Src.Pos.Line < b.Src.Pos.Line
			}
			if a.Src.Pos.Column != b.Src.Pos.Column {
				return a.Src.Pos.Column < b.Src.Pos.Column
			}
		}
		return a.Value < b.Value
	})
	return es
}

func coqKwargs(m map[*ast.Ident]ast.Expr) string {
	xs := []string{}
	for _, e := range sortedKwargs(m) {
		xs = append(xs, "("+coqStr(e.k.String())+", "+coqExpr(e.v)+")")
	}
	return coqList(xs)
}

func coqChain(c *ast.Chain) string {
	add := map[ast.AdditionalChain]string{ast.Vanilla: "Vanilla", ast.Lonely: "Lonely", ast.Thoughtful: "Thoughtful", ast.Strict: "Strict"}[c.Additional]
	main := map[ast.MainChain]string{ast.Scalar: "Scalar", ast.List: "ListC", ast.Reduce: "Reduce"}[c.Main]
	return add + " " + main + " " + coqOpt(c.Arg)
}

func coqFC(fc *ast.FuncComponent) (string, bool) {
	params := []string{}
	for _, a := range fc.Args {
		id, ok := a.(*ast.Ident)
		if !ok {
			return "", false
		}
		params = append(params, coqStr(id.String()))
	}
	body := []string{}
	for _, s := range fc.Body {
		body = append(body, coqStmt(s))
	}
	return "(FC " + coqList(params) + " " + coqKwargs(fc.Kwargs) + " " + coqList(body) + " " + coqStr(fc.String()) + ")", true
}

func coqPairs(ps []*ast.Pair) string {
	xs := []string{}
	for _, p := range ps {
		var k string
		switch key := p.Key.(type) {
		case *ast.Ident:
			k = "(KIdent " + coqStr(key.String()) + ")"
		case *ast.PinnedIdent:
			k = "(KPinned " + coqStr(key.Ident.String()) + ")"
		default:
			k = "(KExpr " + coqExpr(p.Key) + ")"
		}
		xs = append(xs, "("+k+", "+coqExpr(p.Val)+")")
	}
	return coqList(xs)
}

func coqExprs(es []ast.Expr) string {
	xs := []string{}
	for _, e := range es {
		xs = append(xs, coqExpr(e))
	}
	return coqList(xs)
}

func coqStmt(s ast.Stmt) string {
	jt := func(j ast.JumpType) string {
		return map[ast.JumpType]string{ast.ReturnJump: "JReturn", ast.RaiseJump: "JRaise", ast.YieldJump: "JYield", ast.DeferJump: "JDefer"}[j]
	}
	switch s := s.(type) {
	case *ast.ExprStmt:
		return "(SExpr " + coqExpr(s.Expr) + ")"
	case *ast.JumpStmt:
		return "(SJump " + jt(s.JumpType) + " " + coqExpr(s.Val) + ")"
	case *ast.JumpIfStmt:
		return "(SJumpIf " + jt(s.JumpStmt.JumpType) + " " + coqExpr(s.JumpStmt.Val) + " " + coqExpr(s.Cond) + ")"
	}
	return "(SExpr (EUnsup " + coqStr(fmt.Sprintf("stmt %T", s)) + "))"
}

func coqExpr(e ast.Expr) string {
	switch e := e.(type) {
	case *ast.IntLiteral:
		return "(EInt " + coqZ(e.Value) + ")"
	case *ast.FloatLiteral:
		return fmt.Sprintf("(EFloat %d %s)", math.Float64bits(e.Value), coqStr(fmt.Sprintf("%.6f", e.Value)))
	case *ast.StrLiteral:
		return "(EStr " + coqStr(e.Value) + ")"
	case *ast.SymLiteral:
		return "(ESym " + coqStr(e.Value) + ")"
	case *ast.RangeLiteral:
		return "(ERange " + coqOpt(e.Start) + " " + coqOpt(e.Stop) + " " + coqOpt(e.Step) + ")"
	case *ast.ArrLiteral:
		return "(EArr " + coqExprs(e.Elems) + ")"
	case *ast.ObjLiteral:
		return "(EObj " + coqPairs(e.Pairs) + " " + coqExprs(e.EmbeddedExprs) + ")"
	case *ast.MapLiteral:
		return "(EMap " + coqPairs(e.Pairs) + " " + coqExprs(e.EmbeddedExprs) + ")"
	case *ast.FuncLiteral:
		if s, ok := coqFC(&e.FuncComponent); ok {
			return "(EFunc " + s + ")"
		}
		return "(EUnsup \"func with pattern parameter\")"
	case *ast.IterLiteral:
		if s, ok := coqFC(&e.FuncComponent); ok {
			return "(EIter " + s + ")"
		}
		return "(EUnsup \"iter with pattern parameter\")"
	case *ast.DiamondLiteral:
		return "EDiamond"
	case *ast.Ident:
		return "(EIdent " + coqStr(e.Value) + ")"
	case *ast.PinnedIdent:
		return "(EUnsup \"pinned ident as expression\")"
	case *ast.AssignExpr:
		return "(EAssign " + coqStr(e.Left.Value) + " " + coqExpr(e.Right) + ")"
	case *ast.IfExpr:
		return "(EIf " + coqExpr(e.Cond) + " " + coqExpr(e.Then) + " " + coqOpt(e.Else) + ")"
	case *ast.EmbeddedStr:
		// the AST links the pieces last-to-first; emit them in source order
		type piece struct {
			s string
			e ast.Expr
		}
		ps := []piece{}
		for n := e.Former; n != nil; n = n.Former {
			ps = append([]piece{{n.Str, n.Expr}}, ps...)
		}
		xs := []string{}
		for _, p := range ps {
			xs = append(xs, "("+coqStr(p.s)+", "+coqExpr(p.e)+")")
		}
		return "(EEmbStr " + coqList(xs) + " " + coqStr(e.Latter) + ")"
	case *ast.PrefixExpr:
		return "(EPrefix " + coqStr(e.Operator) + " " + coqExpr(e.Right) + ")"
	case *ast.InfixExpr:
		return "(EInfix " + coqStr(e.Operator) + " " + coqExpr(e.Left) + " " + coqExpr(e.Right) + ")"
	case *ast.PropCallExpr:
		return "(EPropCall " + coqChain(e.Chain) + " " + coqOpt(e.Receiver) + " " + coqStr(e.Prop.Value) + " " +
			coqExprs(e.Args) + " " + coqKwargs(e.Kwargs) + ")"
	case *ast.LiteralCallExpr:
		if s, ok := coqFC(&e.Func.FuncComponent); ok {
			return "(ELitCall " + coqChain(e.Chain) + " " + coqOpt(e.Receiver) + " " + s + ")"
		}
		return "(EUnsup \"literal call with pattern parameter\")"
	case *ast.VarCallExpr:
		return "(EVarCall " + coqChain(e.Chain) + " " + coqOpt(e.Receiver) + " " + coqStr(e.Var.Value) + ")"
	}
	return "(EUnsup " + coqStr(fmt.Sprintf("%T", e)) + ")"
}

func coqProgram(p *ast.Program) string {
	xs := []string{}
	for _, s := range p.Stmts {
		xs = append(xs, coqStmt(s))
	}
	return coqList(xs)
}
