package main

import (
	"encoding/json"
	"fmt"
	"io"
	"reflect"
	"regexp"
	"runtime/debug"
	"strings"
	"unsafe"

	"github.com/Syuparn/pangaea/parser"
	"github.com/macrat/simplexer"
)

// C16 sub-commands.
//
// lexchunk: {"src": "...", "chunks":[n1,n2,...] | "chunk":k}   (or "pieces":[[count,"unit"],...] instead of src)
//   parses the text through a scripted io.Reader that hands out the bytes according to
//   the schedule (cycled; 0 / absent = as many bytes as requested)
//   -> {"ok":true,"ast":"..."} | {"ok":false,"err":"..."} plus "reads" (number of Read calls).
//   With "variants":[{"chunks":[..]}|{"chunk":k}|{"chunk":k,"eofdata":true},...] the same text is parsed once
//   per variant -> {"results":[...]}. With "want":"<ast>" a result whose ast equals want is
//   abbreviated to {"ok":true,"same":true,"reads":n}.
//
// lextoks: same request; runs simplexer.Lexer itself with the reduced token table
//   (BACKQUOTE_STR, HEAD_STR_PIECE, DOUBLEQUOTE_STR, MULTILINE_ADD_CHAIN, MULTILINE_MAIN_CHAIN,
//   RET, IDENT, PRIVATE_IDENT - the live entries of the parser's table, same relative order,
//   whitespace " " "\t") -> {"toks":[[index,len],...],"end":0|1,"reads":n}; end 0 = EOF, 1 = error.
//
// dumpregex: {"mode":"dump"} -> {"patterns":{name: pattern text}, "order":[names in table order],
//   "table":[[id, pattern],...]}; {"mode":"match","s":...|"pieces":...} -> {"m":[len|-1 for the eight
//   patterns in lextoks order]} by Go's regexp on the CURRENT pattern text.

type piece struct {
	N    int
	Unit string
}

func (p *piece) UnmarshalJSON(b []byte) error {
	var raw []json.RawMessage
	if err := json.Unmarshal(b, &raw); err != nil {
		return err
	}
	if len(raw) != 2 {
		return fmt.Errorf("piece wants [count, unit]")
	}
	if err := json.Unmarshal(raw[0], &p.N); err != nil {
		return err
	}
	return json.Unmarshal(raw[1], &p.Unit)
}

type chunkSpec struct {
	Chunks  []int `json:"chunks,omitempty"`
	Chunk   int   `json:"chunk,omitempty"`
	EOFData bool  `json:"eofdata,omitempty"` // the last Read returns its bytes together with io.EOF
}

type lexReq struct {
	Src      *string     `json:"src"`
	Pieces   []piece     `json:"pieces"`
	Variants []chunkSpec `json:"variants"`
	Want     *string     `json:"want"`
	Mode     string      `json:"mode"`
	S        *string     `json:"s"`
	chunkSpec
}

func (q *lexReq) text() string {
	if q.Src != nil {
		return *q.Src
	}
	if q.S != nil {
		return *q.S
	}
	var sb strings.Builder
	for _, p := range q.Pieces {
		for i := 0; i < p.N; i++ {
			sb.WriteString(p.Unit)
		}
	}
	return sb.String()
}

type scriptReader struct {
	data    []byte
	pos     int
	sched   []int
	i       int
	reads   int
	eofData bool
}

func newScriptReader(s string, c chunkSpec) *scriptReader {
	sched := c.Chunks
	if len(sched) == 0 && c.Chunk > 0 {
		sched = []int{c.Chunk}
	}
	return &scriptReader{data: []byte(s), sched: sched, eofData: c.EOFData}
}

func (r *scriptReader) Read(p []byte) (int, error) {
	r.reads++
	if r.pos >= len(r.data) {
		return 0, io.EOF
	}
	n := len(p)
	if len(r.sched) > 0 {
		k := r.sched[r.i%len(r.sched)]
		r.i++
		if k > 0 && k < n {
			n = k
		}
	}
	if n > len(r.data)-r.pos {
		n = len(r.data) - r.pos
	}
	copy(p, r.data[r.pos:r.pos+n])
	r.pos += n
	if r.eofData && r.pos >= len(r.data) {
		return n, io.EOF
	}
	return n, nil
}

func parseChunked(src string, c chunkSpec, want *string) (res map[string]interface{}) {
	rd := newScriptReader(src, c)
	defer func() {
		if r := recover(); r != nil {
			res = map[string]interface{}{"ok": false, "err": "panic: " + fmt.Sprint(r), "site": panicSite(string(debug.Stack())), "reads": rd.reads}
		}
	}()
	prog, err := parser.Parse(parser.NewReader(rd, ""))
	if err != nil {
		return map[string]interface{}{"ok": false, "err": err.Error(), "reads": rd.reads}
	}
	s := prog.String()
	if want != nil && s == *want {
		return map[string]interface{}{"ok": true, "same": true, "reads": rd.reads}
	}
	return map[string]interface{}{"ok": true, "ast": s, "reads": rd.reads}
}

func init() {
	register("lexchunk", cmdLexchunk)
	register("lextoks", cmdLextoks)
	register("dumpregex", cmdDumpregex)
}

func cmdLexchunk() {
	readLines(func(line []byte) {
		var q lexReq
		if err := json.Unmarshal(line, &q); err != nil {
			panic(err)
		}
		src := q.text()
		if q.Variants == nil {
			emit(parseChunked(src, q.chunkSpec, q.Want))
			return
		}
		out := make([]map[string]interface{}, 0, len(q.Variants))
		for _, v := range q.Variants {
			out = append(out, parseChunked(src, v, q.Want))
		}
		emit(map[string]interface{}{"results": out})
	})
}

// ---- the live token table ---------------------------------------------------

var reducedNames = []string{"BACKQUOTE_STR", "HEAD_STR_PIECE", "DOUBLEQUOTE_STR",
	"MULTILINE_ADD_CHAIN", "MULTILINE_MAIN_CHAIN", "RET", "IDENT", "PRIVATE_IDENT"}

var reducedIDs = map[simplexer.TokenID]string{
	simplexer.TokenID(parser.BACKQUOTE_STR):        "BACKQUOTE_STR",
	simplexer.TokenID(parser.HEAD_STR_PIECE):       "HEAD_STR_PIECE",
	simplexer.TokenID(parser.DOUBLEQUOTE_STR):      "DOUBLEQUOTE_STR",
	simplexer.TokenID(parser.MULTILINE_ADD_CHAIN):  "MULTILINE_ADD_CHAIN",
	simplexer.TokenID(parser.MULTILINE_MAIN_CHAIN): "MULTILINE_MAIN_CHAIN",
	simplexer.TokenID(parser.RET):                  "RET",
	simplexer.TokenID(parser.IDENT):                "IDENT",
	simplexer.TokenID(parser.PRIVATE_IDENT):        "PRIVATE_IDENT",
}

// liveLexer returns the simplexer.Lexer that parser.NewLexer configures (token
// table and whitespace as evaluated by the running code, not as read from the source text).
func liveLexer(r io.Reader) *simplexer.Lexer {
	pl := parser.NewLexer(parser.NewReader(r, ""))
	f := reflect.ValueOf(pl).Elem().FieldByName("lexer")
	if !f.IsValid() || f.Kind() != reflect.Ptr {
		panic("parser.Lexer has no field `lexer` of pointer type any more")
	}
	return (*simplexer.Lexer)(unsafe.Pointer(f.Pointer()))
}

type liveEntry struct {
	ID      int
	Name    string // "" when not one of the reduced set
	Pattern string
	tt      simplexer.TokenType
}

func liveTable() []liveEntry {
	l := liveLexer(strings.NewReader(""))
	var out []liveEntry
	for _, tt := range l.TokenTypes {
		e := liveEntry{ID: int(tt.GetID()), Name: reducedIDs[tt.GetID()], tt: tt}
		if rt, ok := tt.(*simplexer.RegexpTokenType); ok {
			e.Pattern = rt.Re.String()
		} else {
			e.Pattern = fmt.Sprintf("<%T>", tt)
		}
		out = append(out, e)
	}
	return out
}

// reducedTable: the eight entries, in the order they have in the live table.
func reducedTable() (types []simplexer.TokenType, names []string) {
	for _, e := range liveTable() {
		if e.Name != "" {
			types = append(types, e.tt)
			names = append(names, e.Name)
		}
	}
	return
}

func cmdLextoks() {
	types, names := reducedTable()
	index := map[simplexer.TokenType]int{}
	for i, n := range names {
		for j, m := range reducedNames {
			if n == m {
				index[types[i]] = j
			}
		}
	}
	live := liveLexer(strings.NewReader(""))
	readLines(func(line []byte) {
		var q lexReq
		if err := json.Unmarshal(line, &q); err != nil {
			panic(err)
		}
		rd := newScriptReader(q.text(), q.chunkSpec)
		l := simplexer.NewLexer(rd)
		l.TokenTypes = types
		l.Whitespace = live.Whitespace
		toks := [][2]int{}
		end := 0
		func() {
			defer func() {
				if r := recover(); r != nil {
					end = 3
				}
			}()
			for len(toks) < 200000 {
				t, err := l.Scan()
				if err != nil {
					end = 1
					return
				}
				if t == nil {
					end = 0
					return
				}
				toks = append(toks, [2]int{index[t.Type], len(t.Literal)})
			}
			end = 2
		}()
		emit(map[string]interface{}{"toks": toks, "end": end, "reads": rd.reads})
	})
}

func cmdDumpregex() {
	table := liveTable()
	byName := map[string]*regexp.Regexp{}
	pats := map[string]string{}
	order := []string{}
	for _, e := range table {
		if e.Name != "" {
			pats[e.Name] = e.Pattern
			order = append(order, e.Name)
			if rt, ok := e.tt.(*simplexer.RegexpTokenType); ok {
				// re-compiled from the text, so that what is compared is the pattern text
				byName[e.Name] = regexp.MustCompile(rt.Re.String())
			}
		}
	}
	readLines(func(line []byte) {
		var q lexReq
		if err := json.Unmarshal(line, &q); err != nil {
			panic(err)
		}
		if q.Mode == "dump" {
			tb := [][2]interface{}{}
			for _, e := range table {
				tb = append(tb, [2]interface{}{e.ID, e.Pattern})
			}
			l := liveLexer(strings.NewReader(""))
			ws := []string{}
			if p, ok := l.Whitespace.(*simplexer.PatternTokenType); ok {
				ws = p.Patterns
			}
			emit(map[string]interface{}{"patterns": pats, "order": order, "table": tb, "ws": ws})
			return
		}
		s := q.text()
		m := make([]int, len(reducedNames))
		for i, n := range reducedNames {
			m[i] = -1
			if re := byName[n]; re != nil {
				if loc := re.FindStringIndex(s); loc != nil && loc[0] == 0 {
					m[i] = loc[1]
				}
			}
		}
		emit(map[string]interface{}{"m": m})
	})
}
