package main

// dumpguards — translator of C01 (tie "T"): every Go function (declaration or literal) of the
// repository that receives a slice of Pangaea objects (`args ...object.PanObject`,
// `args []object.PanObject`) is translated to the guard IR of coq/Safety/GuardIR.v:
//
//   SUse i          args[i]                      (Go panics when i >= len(args))
//   SUseFrom k      args[k:], args[a:k]          (Go panics when k > len(args))
//   SHelper v g     ..., err := helper(args,…)   helper returns a non-nil error when len(args) < g
//   SReturn         return / break / continue (inside SLoop)
//   SIf c t e       if / switch / && / ||        c ∈ CLenLt k | CLenGe k | CLenEq k | CErrNil v | CErrNotNil v | COther
//   SLoop body      for / range / function literal that runs later (any number of times)
//
// Direction of every approximation (the IR may have MORE executions than the Go code, never
// fewer; a construct the translator does not understand becomes `SUse 4000`, which no guard
// makes safe, and is listed in "notes"):
//   * a condition that is not a comparison of len(args) with a constant, or a nil test of the
//     error returned by a recognised guard helper in the statement just before, is COther
//     (both branches possible);
//   * a function literal capturing args is an SLoop at the place where it is written
//     (the lower bound on len(args) known there still holds whenever it runs);
//   * `args = args[k:]` at the top level of a body shifts every later constant by k;
//     any other assignment to args ends the tracking of that function ("retargeted": later
//     indexing is not an index into the received arguments; reported in notes).
// A guard helper is a declared function whose body starts with
//   if len(args) < g { return …, <call expression> }     (non-nil error constructor)
// and whose last result type is an error type; g is a constant or an int parameter of the helper (then the call site must pass a
// constant).
//
// request : {"repo":"/repo"}
// reply   : {"entries":[{key,file,line,param,ir,uses,notes}], "helpers":{name:g}, "files":n}

import (
	"encoding/json"
	"fmt"
	"go/ast"
	"go/parser"
	"go/token"
	"os"
	"path/filepath"
	"sort"
	"strconv"
	"strings"
)

func init() { register("dumpguards", cmdDumpguards) }

type dgEntry struct {
	Kind     string   `json:"kind"` // builtin: has the signature of object.BuiltInFunc (any number of arguments can arrive from Pangaea); internal: called by Go code only
	Key      string   `json:"key"`
	Decl     string   `json:"decl"` // pkgdir.name for declared functions (callable by name)
	ParamIdx int      `json:"param_idx"`
	File     string   `json:"file"`
	Line     int      `json:"line"`
	End      int      `json:"end"`
	Param    string   `json:"param"`
	IR       string   `json:"ir"`
	Uses     int      `json:"uses"`
	Conds    int      `json:"conds"`
	Notes    []string `json:"notes"`
}

type dgNeed struct {
	Idx  int `json:"idx"`
	Need int `json:"need"`
}

type dgHelper struct {
	idx  int // index of the slice parameter
	g    int // the bound when it is a constant
	gIdx int // index of the int parameter that holds the bound (-1: constant)
}

type dgCtx struct {
	fset    *token.FileSet
	helpers map[string]dgHelper // by pkgdir + "." + name
	needs   map[string]dgNeed   // declared functions with a slice parameter that need arguments: pkgdir.name -> (param index, need)
	pkg     string
	param   *ast.Object
	offset  int
	derived map[*ast.Object]int // slices derived from the parameter: offset
	dead    bool                // parameter retargeted: stop tracking
	pendObj *ast.Object         // error variable assigned by the previous statement
	pendV   int
	nextV   *int
	uses    int
	conds   int
	notes   []string
	inLater int // >0 inside a loop body or a function literal
}

func isPanSlice(t ast.Expr) bool {
	switch x := t.(type) {
	case *ast.Ellipsis:
		return isPanObjectType(x.Elt)
	case *ast.ArrayType:
		return x.Len == nil && isPanObjectType(x.Elt)
	}
	return false
}

func isPanObjectType(t ast.Expr) bool {
	switch x := t.(type) {
	case *ast.Ident:
		return x.Name == "PanObject"
	case *ast.SelectorExpr:
		return x.Sel.Name == "PanObject"
	}
	return false
}

func dgConst(e ast.Expr) (int, bool) {
	switch x := e.(type) {
	case *ast.BasicLit:
		if x.Kind == token.INT {
			n, err := strconv.ParseInt(x.Value, 0, 32)
			if err == nil {
				return int(n), true
			}
		}
	case *ast.ParenExpr:
		return dgConst(x.X)
	}
	return 0, false
}

func (c *dgCtx) note(n ast.Node, s string) {
	c.notes = append(c.notes, fmt.Sprintf("%s: %s", c.fset.Position(n.Pos()), s))
}

// baseOf: is e the tracked parameter (or a slice derived from it)? returns the offset.
func (c *dgCtx) baseOf(e ast.Expr) (int, bool) {
	id, ok := e.(*ast.Ident)
	if !ok || id.Obj == nil || c.dead {
		return 0, false
	}
	if id.Obj == c.param {
		return c.offset, true
	}
	if k, ok := c.derived[id.Obj]; ok {
		return k, true
	}
	return 0, false
}

func (c *dgCtx) isLenOfParam(e ast.Expr) (int, bool) {
	call, ok := e.(*ast.CallExpr)
	if !ok || len(call.Args) != 1 {
		return 0, false
	}
	f, ok := call.Fun.(*ast.Ident)
	if !ok || f.Name != "len" {
		return 0, false
	}
	return c.baseOf(call.Args[0])
}

const dgUnknown = "SUse 4000"

// uses of the parameter inside an expression, in evaluation order
func (c *dgCtx) expr(e ast.Expr) []string {
	if e == nil {
		return nil
	}
	switch x := e.(type) {
	case *ast.BinaryExpr:
		if x.Op == token.LAND || x.Op == token.LOR {
			l := c.expr(x.X)
			r := c.expr(x.Y)
			if len(r) == 0 {
				return l
			}
			cd := c.cond(x.X)
			if strings.HasPrefix(cd, "EQ ") {
				cd = "CLenEq " + cd[3:]
			} else if strings.HasPrefix(cd, "NE ") {
				// a != test: swap the branches
				cd = "CLenEq " + cd[3:]
				if x.Op == token.LAND {
					return append(l, sif(cd, nil, r)...)
				}
				return append(l, sif(cd, r, nil)...)
			}
			if x.Op == token.LAND {
				return append(l, sif(cd, r, nil)...)
			}
			return append(l, sif(cd, nil, r)...)
		}
		return append(c.expr(x.X), c.expr(x.Y)...)
	case *ast.IndexExpr:
		if off, ok := c.baseOf(x.X); ok {
			out := c.expr(x.Index)
			c.uses++
			if i, ok := dgConst(x.Index); ok {
				return append(out, fmt.Sprintf("SUse %d", i+off))
			}
			c.note(x, "index into the arguments is not a constant")
			return append(out, dgUnknown)
		}
		return append(c.expr(x.X), c.expr(x.Index)...)
	case *ast.SliceExpr:
		if off, ok := c.baseOf(x.X); ok {
			out := append(c.expr(x.Low), c.expr(x.High)...)
			out = append(out, c.expr(x.Max)...)
			c.uses++
			for _, b := range []ast.Expr{x.Low, x.High, x.Max} {
				if b == nil {
					continue
				}
				if k, ok := dgConst(b); ok {
					out = append(out, fmt.Sprintf("SUseFrom %d", k+off))
				} else if _, isLen := c.isLenOfParam(b); !isLen {
					c.note(x, "slice bound of the arguments is not a constant")
					out = append(out, dgUnknown)
				}
			}
			return out
		}
		out := c.expr(x.X)
		out = append(out, c.expr(x.Low)...)
		out = append(out, c.expr(x.High)...)
		return append(out, c.expr(x.Max)...)
	case *ast.CallExpr:
		out := c.expr(x.Fun)
		for _, a := range x.Args {
			out = append(out, c.expr(a)...)
		}
		if f, ok := x.Fun.(*ast.Ident); ok {
			if nd, ok := c.needs[c.pkg+"."+f.Name]; ok && nd.Need > 0 && nd.Idx < len(x.Args) {
				a := x.Args[nd.Idx]
				if off, ok := c.baseOf(a); ok {
					// the callee indexes its slice up to need-1: the received arguments must have need+off elements
					c.uses++
					out = append(out, fmt.Sprintf("SUseFrom %d", nd.Need+off))
				} else if sl, ok := a.(*ast.SliceExpr); ok {
					if off, ok := c.baseOf(sl.X); ok {
						if k, ok := dgConst(sl.Low); ok && sl.High == nil {
							c.uses++
							out = append(out, fmt.Sprintf("SUseFrom %d", nd.Need+off+k))
						}
					}
				}
			}
		}
		return out
	case *ast.FuncLit:
		return c.funcLit(x)
	case *ast.ParenExpr:
		return c.expr(x.X)
	case *ast.UnaryExpr:
		return c.expr(x.X)
	case *ast.StarExpr:
		return c.expr(x.X)
	case *ast.SelectorExpr:
		return c.expr(x.X)
	case *ast.TypeAssertExpr:
		return c.expr(x.X)
	case *ast.KeyValueExpr:
		return append(c.expr(x.Key), c.expr(x.Value)...)
	case *ast.CompositeLit:
		var out []string
		for _, el := range x.Elts {
			out = append(out, c.expr(el)...)
		}
		return out
	case *ast.Ident, *ast.BasicLit, *ast.ArrayType, *ast.MapType, *ast.FuncType, *ast.InterfaceType, *ast.StructType, *ast.ChanType, *ast.Ellipsis:
		return nil
	}
	c.note(e, fmt.Sprintf("expression %T not understood", e))
	return []string{dgUnknown}
}

// a function literal inside the body: if it has its own PanObject-slice parameter it is an entry of
// its own (found by the file walk) — but it may still capture the outer one, so its body is walked
// either way; it runs later, any number of times.
func (c *dgCtx) funcLit(x *ast.FuncLit) []string {
	c.inLater++
	savedPend := c.pendObj
	c.pendObj = nil
	body := c.stmts(x.Body.List)
	c.pendObj = savedPend
	c.inLater--
	if !mentions(body) {
		return nil
	}
	return []string{"SLoop " + dgList(body)}
}

// mentions: does the IR fragment contain anything but control flow?
func mentions(l []string) bool {
	for _, s := range l {
		if strings.Contains(s, "SUse") || strings.Contains(s, "SHelper") {
			return true
		}
	}
	return false
}

func dgList(l []string) string { return "[" + strings.Join(l, "; ") + "]" }

func sif(cd string, t, e []string) []string {
	return []string{fmt.Sprintf("SIf (%s) %s %s", cd, dgList(t), dgList(e))}
}

// cond translates a condition that has NO && / || / ! at the top (those are handled by ifs).
func (c *dgCtx) cond(e ast.Expr) string {
	if p, ok := e.(*ast.ParenExpr); ok {
		return c.cond(p.X)
	}
	b, ok := e.(*ast.BinaryExpr)
	if !ok {
		return "COther"
	}
	// len(args) OP k   /   k OP len(args)
	if off, ok := c.isLenOfParam(b.X); ok {
		if k, ok := dgConst(b.Y); ok {
			return c.lenCond(b.Op, k+off)
		}
	}
	if off, ok := c.isLenOfParam(b.Y); ok {
		if k, ok := dgConst(b.X); ok {
			return c.lenCond(flipOp(b.Op), k+off)
		}
	}
	// err != nil / err == nil for the error assigned by the statement just before
	if c.pendObj != nil && c.inLaterErrOK() {
		if id, ok := b.X.(*ast.Ident); ok && id.Obj == c.pendObj {
			if n, ok := b.Y.(*ast.Ident); ok && n.Name == "nil" {
				switch b.Op {
				case token.NEQ:
					c.conds++
					return fmt.Sprintf("CErrNotNil %d", c.pendV)
				case token.EQL:
					c.conds++
					return fmt.Sprintf("CErrNil %d", c.pendV)
				}
			}
		}
	}
	return "COther"
}

func (c *dgCtx) inLaterErrOK() bool { return true }

func flipOp(op token.Token) token.Token {
	switch op {
	case token.LSS:
		return token.GTR
	case token.GTR:
		return token.LSS
	case token.LEQ:
		return token.GEQ
	case token.GEQ:
		return token.LEQ
	}
	return op
}

// lenCond: condition `len(args) op k` as an IR condition; "EQ k"/"NE k" are expanded by ifs.
func (c *dgCtx) lenCond(op token.Token, k int) string {
	if k < 0 {
		return "COther"
	}
	switch op {
	case token.LSS:
		c.conds++
		return fmt.Sprintf("CLenLt %d", k)
	case token.LEQ:
		c.conds++
		return fmt.Sprintf("CLenLt %d", k+1)
	case token.GEQ:
		c.conds++
		return fmt.Sprintf("CLenGe %d", k)
	case token.GTR:
		c.conds++
		return fmt.Sprintf("CLenGe %d", k+1)
	case token.EQL:
		c.conds++
		return fmt.Sprintf("EQ %d", k)
	case token.NEQ:
		c.conds++
		return fmt.Sprintf("NE %d", k)
	}
	return "COther"
}

// ifs: `if e {T} else {E}` with short-circuit operators and negation expanded.
func (c *dgCtx) ifs(e ast.Expr, t, el []string) []string {
	switch x := e.(type) {
	case *ast.ParenExpr:
		return c.ifs(x.X, t, el)
	case *ast.UnaryExpr:
		if x.Op == token.NOT {
			return c.ifs(x.X, el, t)
		}
	case *ast.BinaryExpr:
		if x.Op == token.LAND {
			return c.ifs(x.X, c.ifs(x.Y, t, el), el)
		}
		if x.Op == token.LOR {
			return c.ifs(x.X, t, c.ifs(x.Y, t, el))
		}
	}
	pre := c.expr(e)
	cd := c.cond(e)
	if strings.HasPrefix(cd, "EQ ") {
		return append(pre, sif("CLenEq "+cd[3:], t, el)...)
	}
	if strings.HasPrefix(cd, "NE ") {
		return append(pre, sif("CLenEq "+cd[3:], el, t)...)
	}
	if cd == "COther" && len(t) == 0 && len(el) == 0 {
		return pre
	}
	return append(pre, sif(cd, t, el)...)
}

func (c *dgCtx) helperCall(e ast.Expr) (int, bool) {
	call, ok := e.(*ast.CallExpr)
	if !ok {
		return 0, false
	}
	name := ""
	switch f := call.Fun.(type) {
	case *ast.Ident:
		name = c.pkg + "." + f.Name
	default:
		return 0, false
	}
	h, ok := c.helpers[name]
	if !ok || h.idx >= len(call.Args) {
		return 0, false
	}
	if h.gIdx >= 0 {
		// the bound is an argument of the call: it must be a constant there
		if h.gIdx >= len(call.Args) {
			return 0, false
		}
		k, isConst := dgConst(call.Args[h.gIdx])
		if !isConst || k < 0 {
			return 0, false
		}
		h.g = k
	}
	a := call.Args[h.idx]
	if off, ok := c.baseOf(a); ok {
		return h.g + off, true
	}
	if s, ok := a.(*ast.SliceExpr); ok && s.High == nil && s.Max == nil {
		if off, ok := c.baseOf(s.X); ok {
			if k, ok := dgConst(s.Low); ok {
				return h.g + off + k, true
			}
		}
	}
	return 0, false
}

func (c *dgCtx) stmts(list []ast.Stmt) []string {
	var out []string
	for _, s := range list {
		// the condition of THIS statement may refer to the error assigned by the previous one
		ir, newPend, newV := c.stmt(s)
		out = append(out, ir...)
		c.pendObj, c.pendV = newPend, newV
	}
	c.pendObj = nil
	return out
}

// stmt returns the IR and, if the statement assigns the result of a guard helper, the error variable.
func (c *dgCtx) stmt(s ast.Stmt) ([]string, *ast.Object, int) {
	switch x := s.(type) {
	case nil:
		return nil, nil, 0
	case *ast.ExprStmt:
		return c.expr(x.X), nil, 0
	case *ast.AssignStmt:
		var out []string
		for _, r := range x.Rhs {
			out = append(out, c.expr(r)...)
		}
		for _, l := range x.Lhs {
			if _, ok := l.(*ast.Ident); !ok {
				out = append(out, c.expr(l)...)
			}
		}
		// assignments to the parameter itself / derived slices
		for i, l := range x.Lhs {
			id, ok := l.(*ast.Ident)
			if !ok || id.Obj == nil {
				continue
			}
			var rhs ast.Expr
			if len(x.Rhs) == len(x.Lhs) {
				rhs = x.Rhs[i]
			}
			if id.Obj == c.param && !c.dead {
				if sl, ok := rhs.(*ast.SliceExpr); ok && sl.High == nil && sl.Max == nil {
					if off, ok2 := c.baseOf(sl.X); ok2 && c.inLater == 0 {
						if k, ok3 := dgConst(sl.Low); ok3 {
							c.offset = off + k
							continue
						}
					}
				}
				c.dead = true
				c.note(x, "the parameter is assigned another slice: later indexing is not tracked")
				continue
			}
			if rhs != nil {
				if sl, ok := rhs.(*ast.SliceExpr); ok && sl.High == nil && sl.Max == nil {
					if off, ok2 := c.baseOf(sl.X); ok2 {
						k := 0
						okc := true
						if sl.Low != nil {
							k, okc = dgConst(sl.Low)
						}
						if okc {
							c.derived[id.Obj] = off + k
							continue
						}
					}
				}
				if off, ok2 := c.baseOf(rhs); ok2 && id.Obj != c.param {
					c.derived[id.Obj] = off
					continue
				}
			}
			delete(c.derived, id.Obj)
		}
		// guard helper?
		if len(x.Rhs) == 1 && len(x.Lhs) >= 1 {
			if g, ok := c.helperCall(x.Rhs[0]); ok {
				if id, ok := x.Lhs[len(x.Lhs)-1].(*ast.Ident); ok && id.Obj != nil && id.Name != "_" {
					v := *c.nextV
					*c.nextV++
					out = append(out, fmt.Sprintf("SHelper %d %d", v, g))
					return out, id.Obj, v
				}
			}
		}
		return out, nil, 0
	case *ast.DeclStmt:
		var out []string
		if gd, ok := x.Decl.(*ast.GenDecl); ok {
			for _, sp := range gd.Specs {
				if vs, ok := sp.(*ast.ValueSpec); ok {
					for _, v := range vs.Values {
						out = append(out, c.expr(v)...)
					}
				}
			}
		}
		return out, nil, 0
	case *ast.ReturnStmt:
		var out []string
		for _, r := range x.Results {
			out = append(out, c.expr(r)...)
		}
		if c.inLater > 0 {
			// a return inside a function literal leaves the literal, not this function: SLoop's
			// semantics lets execution continue after the loop, so SReturn is still right there
			return append(out, "SReturn"), nil, 0
		}
		return append(out, "SReturn"), nil, 0
	case *ast.BranchStmt:
		if x.Label != nil || x.Tok == token.GOTO || x.Tok == token.FALLTHROUGH {
			c.note(x, "labelled branch / goto / fallthrough")
			return []string{dgUnknown}, nil, 0
		}
		if c.inLater > 0 {
			return []string{"SReturn"}, nil, 0
		}
		c.note(x, "break outside a loop")
		return []string{dgUnknown}, nil, 0
	case *ast.BlockStmt:
		return c.stmts(x.List), nil, 0
	case *ast.IfStmt:
		var out []string
		pend, pv := c.pendObj, c.pendV
		if x.Init != nil {
			ir, np, nv := c.stmt(x.Init)
			out = append(out, ir...)
			pend, pv = np, nv
		}
		c.pendObj, c.pendV = nil, 0
		t := c.stmts(x.Body.List)
		var el []string
		if x.Else != nil {
			ir, _, _ := c.stmt(x.Else)
			el = ir
		}
		c.pendObj, c.pendV = pend, pv
		out = append(out, c.ifs(x.Cond, t, el)...)
		c.pendObj = nil
		return out, nil, 0
	case *ast.ForStmt:
		var out []string
		if x.Init != nil {
			ir, _, _ := c.stmt(x.Init)
			out = append(out, ir...)
		}
		c.inLater++
		c.pendObj = nil
		body := c.expr(x.Cond)
		body = append(body, c.stmts(x.Body.List)...)
		if x.Post != nil {
			ir, _, _ := c.stmt(x.Post)
			body = append(body, ir...)
		}
		c.inLater--
		if mentions(body) {
			out = append(out, "SLoop "+dgList(body))
		}
		return out, nil, 0
	case *ast.RangeStmt:
		out := c.expr(x.X)
		c.inLater++
		c.pendObj = nil
		body := c.stmts(x.Body.List)
		c.inLater--
		if mentions(body) {
			out = append(out, "SLoop "+dgList(body))
		}
		return out, nil, 0
	case *ast.SwitchStmt:
		var out []string
		if x.Init != nil {
			ir, _, _ := c.stmt(x.Init)
			out = append(out, ir...)
		}
		out = append(out, c.expr(x.Tag)...)
		lenOff, tagIsLen := 0, false
		if x.Tag != nil {
			lenOff, tagIsLen = c.isLenOfParam(x.Tag)
		}
		// clauses from last to first: rest = what runs when this clause does not match
		var deflt []string
		for _, cl := range x.Body.List {
			cc := cl.(*ast.CaseClause)
			if cc.List == nil {
				c.pendObj = nil
				deflt = c.switchBody(cc.Body)
			}
		}
		rest := deflt
		for i := len(x.Body.List) - 1; i >= 0; i-- {
			cc := x.Body.List[i].(*ast.CaseClause)
			if cc.List == nil {
				continue
			}
			c.pendObj = nil
			body := c.switchBody(cc.Body)
			for j := len(cc.List) - 1; j >= 0; j-- {
				ce := cc.List[j]
				if x.Tag == nil {
					rest = c.ifs(ce, body, rest)
				} else if k, ok := dgConst(ce); ok && tagIsLen {
					rest = sif(fmt.Sprintf("CLenEq %d", k+lenOff), body, rest)
				} else {
					rest = append(c.expr(ce), sif("COther", body, rest)...)
				}
			}
		}
		return append(out, rest...), nil, 0
	case *ast.TypeSwitchStmt:
		var out []string
		if x.Init != nil {
			ir, _, _ := c.stmt(x.Init)
			out = append(out, ir...)
		}
		ir, _, _ := c.stmt(x.Assign)
		out = append(out, ir...)
		var rest []string
		hasDefault := false
		for _, cl := range x.Body.List {
			if cl.(*ast.CaseClause).List == nil {
				c.pendObj = nil
				rest = c.switchBody(cl.(*ast.CaseClause).Body)
				hasDefault = true
			}
		}
		_ = hasDefault
		for i := len(x.Body.List) - 1; i >= 0; i-- {
			cc := x.Body.List[i].(*ast.CaseClause)
			if cc.List == nil {
				continue
			}
			c.pendObj = nil
			rest = sif("COther", c.switchBody(cc.Body), rest)
		}
		return append(out, rest...), nil, 0
	case *ast.DeferStmt:
		return c.expr(x.Call), nil, 0
	case *ast.GoStmt:
		return c.expr(x.Call), nil, 0
	case *ast.IncDecStmt:
		return c.expr(x.X), nil, 0
	case *ast.EmptyStmt:
		return nil, nil, 0
	case *ast.LabeledStmt:
		c.note(x, "labelled statement")
		ir, _, _ := c.stmt(x.Stmt)
		return append([]string{dgUnknown}, ir...), nil, 0
	case *ast.SendStmt:
		return append(c.expr(x.Chan), c.expr(x.Value)...), nil, 0
	case *ast.SelectStmt:
		var rest []string
		for _, cl := range x.Body.List {
			cc := cl.(*ast.CommClause)
			var body []string
			if cc.Comm != nil {
				ir, _, _ := c.stmt(cc.Comm)
				body = ir
			}
			c.inLater++ // break inside select leaves the select
			body = append(body, c.stmts(cc.Body)...)
			c.inLater--
			if mentions(body) {
				rest = append(rest, "SLoop "+dgList(body))
			}
		}
		return rest, nil, 0
	}
	c.note(s, fmt.Sprintf("statement %T not understood", s))
	return []string{dgUnknown}, nil, 0
}

// a switch clause body: `break` leaves the switch. A body containing a break is wrapped in an SLoop
// (which may run it once and continues after it), otherwise it is inlined.
func (c *dgCtx) switchBody(list []ast.Stmt) []string {
	hasBreak := false
	for _, s := range list {
		ast.Inspect(s, func(n ast.Node) bool {
			switch b := n.(type) {
			case *ast.FuncLit, *ast.ForStmt, *ast.RangeStmt:
				return false
			case *ast.BranchStmt:
				if b.Tok == token.BREAK {
					hasBreak = true
				}
			}
			return true
		})
	}
	if !hasBreak {
		return c.stmts(list)
	}
	c.inLater++
	body := c.stmts(list)
	c.inLater--
	if !mentions(body) {
		return nil
	}
	return []string{"SLoop " + dgList(body)}
}

// guard helper recognition
func recogniseHelper(fd *ast.FuncDecl) (dgHelper, bool) {
	if fd.Body == nil || fd.Type.Results == nil || len(fd.Body.List) == 0 {
		return dgHelper{}, false
	}
	res := fd.Type.Results.List
	last := res[len(res)-1].Type
	isErr := false
	switch t := last.(type) {
	case *ast.StarExpr:
		switch u := t.X.(type) {
		case *ast.SelectorExpr:
			isErr = u.Sel.Name == "PanErr"
		case *ast.Ident:
			isErr = u.Name == "PanErr"
		}
	case *ast.Ident:
		isErr = t.Name == "error"
	}
	if !isErr {
		return dgHelper{}, false
	}
	idx, pos := -1, 0
	var pobj *ast.Object
	for _, f := range fd.Type.Params.List {
		n := len(f.Names)
		if n == 0 {
			n = 1
		}
		if isPanSlice(f.Type) && len(f.Names) == 1 && idx < 0 {
			idx = pos
			pobj = f.Names[0].Obj
		}
		pos += n
	}
	if idx < 0 {
		return dgHelper{}, false
	}
	ifs, ok := fd.Body.List[0].(*ast.IfStmt)
	if !ok || ifs.Init != nil || len(ifs.Body.List) == 0 {
		return dgHelper{}, false
	}
	b, ok := ifs.Cond.(*ast.BinaryExpr)
	if !ok || b.Op != token.LSS {
		return dgHelper{}, false
	}
	call, ok := b.X.(*ast.CallExpr)
	if !ok || len(call.Args) != 1 {
		return dgHelper{}, false
	}
	if f, ok := call.Fun.(*ast.Ident); !ok || f.Name != "len" {
		return dgHelper{}, false
	}
	if id, ok := call.Args[0].(*ast.Ident); !ok || id.Obj != pobj {
		return dgHelper{}, false
	}
	g, ok := dgConst(b.Y)
	gIdx := -1
	if !ok {
		// `len(args) < n` with n an int parameter of the helper
		id, isId := b.Y.(*ast.Ident)
		if !isId || id.Obj == nil {
			return dgHelper{}, false
		}
		pos2 := 0
		for _, f := range fd.Type.Params.List {
			for _, nm := range f.Names {
				if nm.Obj == id.Obj {
					if t, isT := f.Type.(*ast.Ident); isT && t.Name == "int" {
						gIdx = pos2
					}
				}
				pos2++
			}
		}
		if gIdx < 0 {
			return dgHelper{}, false
		}
	}
	ret, ok := ifs.Body.List[len(ifs.Body.List)-1].(*ast.ReturnStmt)
	if !ok || len(ret.Results) == 0 {
		return dgHelper{}, false
	}
	if _, ok := ret.Results[len(ret.Results)-1].(*ast.CallExpr); !ok {
		return dgHelper{}, false
	}
	// nothing before the return may fall out of the block
	for _, s := range ifs.Body.List[:len(ifs.Body.List)-1] {
		if _, ok := s.(*ast.ExprStmt); !ok {
			if _, ok := s.(*ast.AssignStmt); !ok {
				return dgHelper{}, false
			}
		}
	}
	return dgHelper{idx: idx, g: g, gIdx: gIdx}, true
}

func cmdDumpguards() {
	readLines(func(line []byte) {
		var req struct {
			Repo  string            `json:"repo"`
			Needs map[string]dgNeed `json:"needs"`
		}
		if err := json.Unmarshal(line, &req); err != nil {
			emit(map[string]string{"error": err.Error()})
			return
		}
		fset := token.NewFileSet()
		type pf struct {
			rel string
			dir string
			f   *ast.File
		}
		var files []pf
		var perr []string
		filepath.Walk(req.Repo, func(p string, info os.FileInfo, err error) error {
			if err != nil {
				return nil
			}
			rel, _ := filepath.Rel(req.Repo, p)
			if info.IsDir() {
				if strings.HasPrefix(info.Name(), ".") && rel != "." || rel == "third_party" || rel == "web" || rel == "docs" {
					return filepath.SkipDir
				}
				return nil
			}
			if !strings.HasSuffix(p, ".go") || strings.HasSuffix(p, "_test.go") || rel == "parser/y.go" {
				return nil
			}
			f, err := parser.ParseFile(fset, p, nil, 0)
			if err != nil {
				perr = append(perr, err.Error())
				return nil
			}
			files = append(files, pf{rel: rel, dir: filepath.Dir(rel), f: f})
			return nil
		})
		sort.Slice(files, func(i, j int) bool { return files[i].rel < files[j].rel })
		helpers := map[string]dgHelper{}
		for _, f := range files {
			for _, d := range f.f.Decls {
				if fd, ok := d.(*ast.FuncDecl); ok && fd.Recv == nil {
					if h, ok := recogniseHelper(fd); ok {
						helpers[f.dir+"."+fd.Name.Name] = h
					}
				}
			}
		}
		var entries []dgEntry
		seen := map[string]int{}
		for _, f := range files {
			// enclosing names for keys
			var stack []ast.Node
			ast.Inspect(f.f, func(n ast.Node) bool {
				if n == nil {
					stack = stack[:len(stack)-1]
					return true
				}
				stack = append(stack, n)
				var ft *ast.FuncType
				var body *ast.BlockStmt
				switch x := n.(type) {
				case *ast.FuncDecl:
					ft, body = x.Type, x.Body
				case *ast.FuncLit:
					ft, body = x.Type, x.Body
				}
				if ft == nil || body == nil {
					return true
				}
				for _, p := range ft.Params.List {
					if !isPanSlice(p.Type) {
						continue
					}
					for _, nm := range p.Names {
						if nm.Obj == nil || nm.Name == "_" {
							continue
						}
						nv := 0
						c := &dgCtx{fset: fset, helpers: helpers, needs: req.Needs, pkg: f.dir, param: nm.Obj, derived: map[*ast.Object]int{}, nextV: &nv}
						ir := c.stmts(body.List)
						key := f.dir + "." + enclosingKey(stack)
						seen[key]++
						if seen[key] > 1 {
							key = fmt.Sprintf("%s#%d", key, seen[key])
						}
						if len(ft.Params.List) > 1 || len(p.Names) > 1 {
							key += ":" + nm.Name
						}
						for i := range c.notes {
							c.notes[i] = strings.TrimPrefix(c.notes[i], req.Repo+"/")
						}
						kind := "internal"
						if isBuiltInSig(ft) {
							kind = "builtin"
						}
						pidx, pos := 0, 0
						for _, q := range ft.Params.List {
							for _, qn := range q.Names {
								if qn == nm {
									pidx = pos
								}
								pos++
							}
						}
						declName := ""
						if fd, ok := n.(*ast.FuncDecl); ok && fd.Recv == nil {
							declName = f.dir + "." + fd.Name.Name
						}
						entries = append(entries, dgEntry{Kind: kind, Decl: declName, ParamIdx: pidx, Key: key, File: f.rel, Line: fset.Position(n.Pos()).Line, End: fset.Position(n.End()).Line,
							Param: nm.Name, IR: dgList(ir), Uses: c.uses, Conds: c.conds, Notes: c.notes})
					}
				}
				return true
			})
		}
		hs := map[string]int{}
		for k, h := range helpers {
			hs[k] = h.g
		}
		// singletons of package object: `var BuiltInX = &PanObj{}` (a PanObj whose Pairs/Keys are nil until
		// init() runs `*BuiltInX = *NewPanObj(...)`) and the names the global scope binds
		declared, initialised, bound := []string{}, []string{}, map[string]string{}
		for _, f := range files {
			if f.dir != "object" {
				continue
			}
			for _, d := range f.f.Decls {
				switch x := d.(type) {
				case *ast.GenDecl:
					for _, sp := range x.Specs {
						vs, ok := sp.(*ast.ValueSpec)
						if !ok {
							continue
						}
						for i, nm := range vs.Names {
							if i < len(vs.Values) && isEmptyPanObjLit(vs.Values[i]) {
								declared = append(declared, nm.Name)
							}
						}
					}
				case *ast.FuncDecl:
					if x.Name.Name == "init" && x.Recv == nil && x.Body != nil {
						for _, st := range x.Body.List { // top level of init() only: unconditional
							as, ok := st.(*ast.AssignStmt)
							if !ok || len(as.Lhs) != 1 || len(as.Rhs) != 1 {
								continue
							}
							l, ok1 := as.Lhs[0].(*ast.StarExpr)
							r, ok2 := as.Rhs[0].(*ast.StarExpr)
							if !ok1 || !ok2 {
								continue
							}
							id, ok1 := l.X.(*ast.Ident)
							call, ok2 := r.X.(*ast.CallExpr)
							if !ok1 || !ok2 {
								continue
							}
							if fn, ok := call.Fun.(*ast.Ident); ok && fn.Name == "NewPanObj" && len(call.Args) >= 1 {
								if u, ok := call.Args[0].(*ast.UnaryExpr); ok && u.Op == token.AND {
									initialised = append(initialised, id.Name)
								}
							}
						}
					}
					if x.Name.Name == "NewEnvWithConsts" && x.Body != nil {
						ast.Inspect(x.Body, func(n ast.Node) bool {
							call, ok := n.(*ast.CallExpr)
							if !ok || len(call.Args) != 2 {
								return true
							}
							sel, ok := call.Fun.(*ast.SelectorExpr)
							if !ok || sel.Sel.Name != "Set" {
								return true
							}
							inner, ok := call.Args[0].(*ast.CallExpr)
							if !ok || len(inner.Args) != 1 {
								return true
							}
							lit, ok1 := inner.Args[0].(*ast.BasicLit)
							id, ok2 := call.Args[1].(*ast.Ident)
							if ok1 && ok2 {
								bound[strings.Trim(lit.Value, "\"")] = id.Name
							}
							return true
						})
					}
				}
			}
		}
		sort.Strings(declared)
		sort.Strings(initialised)
		emit(map[string]interface{}{"entries": entries, "helpers": hs, "files": len(files), "parse_errors": perr,
			"singletons": map[string]interface{}{"declared": declared, "initialised": initialised, "bound": bound}})
	})
}

// enclosingKey names a function by the declarations and map keys around it, e.g. ArrProps["=="].
func enclosingKey(stack []ast.Node) string {
	var parts []string
	for i, n := range stack {
		switch x := n.(type) {
		case *ast.FuncDecl:
			parts = append(parts, x.Name.Name)
		case *ast.KeyValueExpr:
			if lit, ok := x.Key.(*ast.BasicLit); ok {
				parts = append(parts, "["+lit.Value+"]")
			} else if id, ok := x.Key.(*ast.Ident); ok {
				parts = append(parts, "."+id.Name)
			}
		case *ast.ValueSpec:
			if len(x.Names) > 0 {
				parts = append(parts, x.Names[0].Name)
			}
		case *ast.AssignStmt:
			if i+1 < len(stack) {
				if id, ok := x.Lhs[0].(*ast.Ident); ok {
					parts = append(parts, id.Name+"=")
				}
			}
		case *ast.FuncLit:
			if i == len(stack)-1 && len(parts) == 0 {
				parts = append(parts, "lit")
			}
		}
	}
	if len(parts) == 0 {
		return "lit"
	}
	return strings.Join(parts, "")
}

// isBuiltInSig: func(env *object.Env, kwargs *object.PanObj, args ...object.PanObject) object.PanObject
func isBuiltInSig(ft *ast.FuncType) bool {
	if ft.Results == nil || len(ft.Results.List) != 1 || !isPanObjectType(ft.Results.List[0].Type) {
		return false
	}
	var types []ast.Expr
	for _, p := range ft.Params.List {
		n := len(p.Names)
		if n == 0 {
			n = 1
		}
		for i := 0; i < n; i++ {
			types = append(types, p.Type)
		}
	}
	if len(types) != 3 {
		return false
	}
	ptrTo := func(t ast.Expr, name string) bool {
		st, ok := t.(*ast.StarExpr)
		if !ok {
			return false
		}
		switch u := st.X.(type) {
		case *ast.Ident:
			return u.Name == name
		case *ast.SelectorExpr:
			return u.Sel.Name == name
		}
		return false
	}
	el, ok := types[2].(*ast.Ellipsis)
	return ptrTo(types[0], "Env") && ptrTo(types[1], "PanObj") && ok && isPanObjectType(el.Elt)
}

// isEmptyPanObjLit: &PanObj{} (no fields set)
func isEmptyPanObjLit(e ast.Expr) bool {
	u, ok := e.(*ast.UnaryExpr)
	if !ok || u.Op != token.AND {
		return false
	}
	cl, ok := u.X.(*ast.CompositeLit)
	if !ok || len(cl.Elts) != 0 {
		return false
	}
	id, ok := cl.Type.(*ast.Ident)
	return ok && id.Name == "PanObj"
}
