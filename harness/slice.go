package main

import (
	"bytes"
	"encoding/json"
	"fmt"
	"runtime/debug"
	"strconv"
	"strings"

	"github.com/Syuparn/pangaea/evaluator"
	"github.com/Syuparn/pangaea/object"
)

// slice: one indexing / slicing per line, through Arr#at / Str#at called directly
// (the built-ins index.go registers as "Arr_at" / "Str_at") and, when src is set,
// through the source text `s[i]` / `s[a:b:c]`.
//
//	{"kind":"arr","seq":[10,11,12],"idx":"-1"}
//	{"kind":"str","seq":"aé😀","start":null,"stop":"2","step":"-1","src":true}
//
// reply {"r":…,"s":…}: a list (array: the ints, null for a nil element; string: its
// code points), "nil", "e:<ErrKind>", "p:<function that panicked>", "o:<type>",
// "x:<syntax error>" (source only).
type sliceReq struct {
	Kind  string          `json:"kind"`
	Seq   json.RawMessage `json:"seq"`
	Idx   *string         `json:"idx"`
	Start *string         `json:"start"`
	Stop  *string         `json:"stop"`
	Step  *string         `json:"step"`
	Src   bool            `json:"src"`
}

func init() { register("slice", cmdSlice) }

// panicFunc names the innermost function of the pangaea module on the stack,
// e.g. "evaluator.strRange" (independent of where the tree is checked out).
func panicFunc(stack string) string {
	const mod = "github.com/Syuparn/pangaea/"
	for _, l := range strings.Split(stack, "\n") {
		l = strings.TrimSpace(l)
		if strings.HasPrefix(l, mod) {
			l = strings.TrimPrefix(l, mod)
			if i := strings.LastIndex(l, "("); i > 0 {
				l = l[:i]
			}
			return l
		}
	}
	return "?"
}

func sliceVal(v object.PanObject) interface{} {
	switch v := v.(type) {
	case *object.PanErr:
		return "e:" + v.Kind()
	case *object.PanNil:
		return "nil"
	case *object.PanInt:
		return []interface{}{v.Value}
	case *object.PanStr:
		cps := []interface{}{}
		for _, r := range v.Value {
			cps = append(cps, int64(r))
		}
		return cps
	case *object.PanArr:
		out := []interface{}{}
		for _, e := range v.Elems {
			switch e := e.(type) {
			case *object.PanInt:
				out = append(out, e.Value)
			case *object.PanNil:
				out = append(out, nil)
			default:
				out = append(out, "o:"+string(e.Type()))
			}
		}
		return out
	}
	if v == nil {
		return "o:GoNil"
	}
	return "o:" + string(v.Type())
}

func bound(s *string) object.PanObject {
	if s == nil {
		return object.BuiltInNil
	}
	n, err := strconv.ParseInt(*s, 10, 64)
	if err != nil {
		panic(err)
	}
	return object.NewPanInt(n)
}

func boundSrc(s *string) string {
	if s == nil {
		return ""
	}
	return *s
}

func cmdSlice() {
	ctn := evaluator.NewPropContainer()
	arrAt := ctn["Arr_at"].(*object.PanBuiltIn).Fn
	strAt := ctn["Str_at"].(*object.PanBuiltIn).Fn
	var out bytes.Buffer
	env := newEnv(strings.NewReader(""), &out)
	readLines(func(line []byte) {
		var q sliceReq
		if err := json.Unmarshal(line, &q); err != nil {
			panic(err)
		}
		var recv object.PanObject
		var recvSrc string
		at := arrAt
		if q.Kind == "str" {
			var s string
			if err := json.Unmarshal(q.Seq, &s); err != nil {
				panic(err)
			}
			recv = object.NewPanStr(s)
			recvSrc = `"` + s + `"`
			at = strAt
		} else {
			var xs []int64
			if err := json.Unmarshal(q.Seq, &xs); err != nil {
				panic(err)
			}
			elems := []object.PanObject{}
			parts := []string{}
			for _, x := range xs {
				elems = append(elems, object.NewPanInt(x))
				parts = append(parts, fmt.Sprint(x))
			}
			recv = object.NewPanArr(elems...)
			recvSrc = "[" + strings.Join(parts, ", ") + "]"
		}
		var index object.PanObject
		var indexSrc string
		if q.Idx != nil {
			index = bound(q.Idx)
			indexSrc = *q.Idx
		} else {
			index = object.NewPanRange(bound(q.Start), bound(q.Stop), bound(q.Step))
			indexSrc = boundSrc(q.Start) + ":" + boundSrc(q.Stop)
			if q.Step != nil {
				indexSrc += ":" + *q.Step
			}
		}
		res := map[string]interface{}{}
		func() {
			defer func() {
				if r := recover(); r != nil {
					res["r"] = "p:" + panicFunc(string(debug.Stack()))
				}
			}()
			res["r"] = sliceVal(at(env, object.EmptyPanObjPtr(), recv, object.NewPanArr(index)))
		}()
		if q.Src {
			src := recvSrc + "[" + indexSrc + "]"
			out.Reset()
			func() {
				defer func() {
					if r := recover(); r != nil {
						res["s"] = "p:" + panicFunc(string(debug.Stack()))
					}
				}()
				node, err := parseString(src)
				if err != nil {
					res["s"] = "x:" + err.Error()
					return
				}
				res["s"] = sliceVal(evaluator.Eval(node, object.NewEnclosedEnv(env)))
			}()
		}
		emit(res)
	})
	stdout.Flush()
}
