package main

import (
	"bytes"
	"crypto/sha1"
	"encoding/json"
	"fmt"
	"os"
	"path/filepath"
	"sort"
	"strings"

	"github.com/Syuparn/pangaea/object"
	"github.com/Syuparn/pangaea/runscript"
)

// fresh: {"history": [src...], "prog": src, "coq": bool}
// Evaluates every program of the history in its own scope enclosed in ONE interpreter's
// global scope (what the playground executor does for successive executions), then prog in
// a fresh enclosed scope; answers with prog's observation (stdout, value, error, stack trace).
// runtest: {"files": [[name, src]...], "dir": scratch directory, "mode": "" | "file"} writes the files into the scratch directory and runs
// runscript.RunTest on it (one interpreter, one scope per file); answers with its output
// and exit code.
type freshReq struct {
	History []string `json:"history"`
	Prog    string   `json:"prog"`
	Coq     bool     `json:"coq"`
	// Fingerprint: also report a fingerprint of everything a later program can reach from the
	// global scope (every global name; for objects their own property names, values and prototype)
	Fingerprint bool `json:"fingerprint"`
	// standard input of each earlier program and of prog (the playground injects a new reader per execution)
	Stdins []string `json:"stdins"`
	Stdin  string   `json:"stdin"`
}

type freshReply struct {
	evalResult
	Coq     string            `json:"coq,omitempty"`
	NewProc bool              `json:"newenv"`
	World   map[string]string `json:"world,omitempty"`
}

// worldFingerprint: global name -> digest of what it denotes (objects: proto + own pairs, one level deep)
func worldFingerprint(global *object.Env) map[string]string {
	fp := map[string]string{}
	for h, v := range global.Store {
		s, ok := object.SymHash2Str(h)
		if !ok {
			continue
		}
		name := s.(*object.PanStr).Value
		fp[name] = describeDeep(v)
	}
	return fp
}

func describeDeep(v object.PanObject) string {
	o, ok := v.(*object.PanObj)
	if !ok {
		if v == nil {
			return "<go nil>"
		}
		if e, isErr := v.(*object.PanErr); isErr {
			return "err:" + e.Inspect() + "|trace:" + e.StackTrace
		}
		return string(v.Type()) + ":" + v.Inspect()
	}
	keys := []string{}
	for _, p := range *o.Pairs {
		k := p.Key.Inspect()
		val := "?"
		if p.Value != nil {
			if e, isErr := p.Value.(*object.PanErr); isErr {
				val = "err:" + e.Inspect() + "|trace:" + e.StackTrace
			} else {
				val = string(p.Value.Type()) + ":" + p.Value.Inspect()
			}
		}
		keys = append(keys, k+"="+val)
	}
	sort.Strings(keys)
	proto := "<none>"
	if o.Proto() != nil {
		proto = fmt.Sprintf("%p", o.Proto())
	}
	sum := sha1.Sum([]byte(strings.Join(keys, "\x00")))
	return fmt.Sprintf("obj proto=%s n=%d sha=%x", proto, len(keys), sum[:8])
}

func init() {
	register("fresh", cmdFresh)
	register("runtest", cmdRuntest)
}

func cmdFresh() {
	var out bytes.Buffer
	in := &switchReader{}
	in.r = strings.NewReader("")
	global := newEnv(in, &out)
	readLines(func(line []byte) {
		var q freshReq
		if err := json.Unmarshal(line, &q); err != nil {
			panic(err)
		}
		// as web/wasm/executor.go: IO is injected into the constant scope before every execution
		// (a NEW output buffer per execution, as the executor makes: output that a later execution writes into an earlier
		// execution's buffer is lost to it)
		for i, h := range q.History {
			sin := ""
			if i < len(q.Stdins) {
				sin = q.Stdins[i]
			}
			hout := &bytes.Buffer{}
			global.InjectIO(strings.NewReader(sin), hout)
			evalIn(h, object.NewEnclosedEnv(global), hout)
		}
		pout := &bytes.Buffer{}
		global.InjectIO(strings.NewReader(q.Stdin), pout)
		r := evalIn(q.Prog, object.NewEnclosedEnv(global), pout)
		rep := freshReply{evalResult: r}
		if q.Fingerprint {
			rep.World = worldFingerprint(global)
		}
		if q.Coq && r.Kind != "syntax" {
			if node, err := parseString(q.Prog); err == nil {
				rep.Coq = coqProgram(node)
			}
		}
		emit(rep)
	})
}

type runtestReq struct {
	Files [][]string `json:"files"`
	Dir   string     `json:"dir"`
	Mode  string     `json:"mode"` // "" = runscript.RunTest on the directory; "file" = run the first file as `pangaea <file>` does
}

func cmdRuntest() {
	readLines(func(line []byte) {
		var q runtestReq
		if err := json.Unmarshal(line, &q); err != nil {
			panic(err)
		}
		os.RemoveAll(q.Dir)
		os.MkdirAll(q.Dir, 0o755)
		for _, f := range q.Files {
			os.MkdirAll(filepath.Dir(filepath.Join(q.Dir, f[0])), 0o755)
			os.WriteFile(filepath.Join(q.Dir, f[0]), []byte(f[1]), 0o644)
		}
		var out bytes.Buffer
		// errors go to os.Stderr in runscript: capture them through a pipe
		oldErr := os.Stderr
		rp, wp, _ := os.Pipe()
		os.Stderr = wp
		var code int
		if q.Mode == "file" {
			// what `pangaea <file>` does: runscript.ReadFile, then RunSource on the text it returned
			path := filepath.Join(q.Dir, q.Files[0][0])
			src, rc := runscript.ReadFile(path)
			code = rc
			if rc == 0 {
				code = runscript.RunSource(src, path, strings.NewReader(""), &out)
			}
		} else {
			code = runscript.RunTest(q.Dir, strings.NewReader(""), &out)
		}
		wp.Close()
		os.Stderr = oldErr
		var errb bytes.Buffer
		errb.ReadFrom(rp)
		os.RemoveAll(q.Dir)
		emit(map[string]interface{}{"code": code, "out": strings.ReplaceAll(out.String(), q.Dir, "<dir>"),
			"err": strings.ReplaceAll(errb.String(), q.Dir, "<dir>")})
	})
}
