package main

import (
	"bytes"
	"encoding/json"
	"os"
	"path/filepath"
	"strings"

	"github.com/Syuparn/pangaea/object"
	"github.com/Syuparn/pangaea/runscript"
)

// fresh: {"history": [src...], "prog": src, "coq": bool}
// Evaluates every program of the history in its own scope enclosed in ONE interpreter's
// global scope (what the playground executor does for successive executions), then prog in
// a fresh enclosed scope; answers with prog's observation (stdout, value, error, stack trace).
// runtest: {"files": [[name, src]...]} writes the files into a scratch directory and runs
// runscript.RunTest on it (one interpreter, one scope per file); answers with its output
// and exit code.
type freshReq struct {
	History []string `json:"history"`
	Prog    string   `json:"prog"`
	Coq     bool     `json:"coq"`
}

type freshReply struct {
	evalResult
	Coq     string `json:"coq,omitempty"`
	NewProc bool   `json:"newenv"`
}

func init() {
	register("fresh", cmdFresh)
	register("runtest", cmdRuntest)
}

func cmdFresh() {
	var out bytes.Buffer
	in := &switchReader{}
	in.r = strings.NewReader("")
	global := newEnv(in, &out)
	readLines(func(line []byte) {
		var q freshReq
		if err := json.Unmarshal(line, &q); err != nil {
			panic(err)
		}
		for _, h := range q.History {
			out.Reset()
			in.r = strings.NewReader("")
			evalIn(h, object.NewEnclosedEnv(global), &out)
		}
		out.Reset()
		in.r = strings.NewReader("")
		r := evalIn(q.Prog, object.NewEnclosedEnv(global), &out)
		rep := freshReply{evalResult: r}
		if q.Coq && r.Kind != "syntax" {
			if node, err := parseString(q.Prog); err == nil {
				rep.Coq = coqProgram(node)
			}
		}
		emit(rep)
	})
}

type runtestReq struct {
	Files [][]string `json:"files"`
	Dir   string     `json:"dir"`
}

func cmdRuntest() {
	readLines(func(line []byte) {
		var q runtestReq
		if err := json.Unmarshal(line, &q); err != nil {
			panic(err)
		}
		os.RemoveAll(q.Dir)
		os.MkdirAll(q.Dir, 0o755)
		for _, f := range q.Files {
			os.WriteFile(filepath.Join(q.Dir, f[0]), []byte(f[1]), 0o644)
		}
		var out bytes.Buffer
		// errors go to os.Stderr in runscript: capture them through a pipe
		oldErr := os.Stderr
		rp, wp, _ := os.Pipe()
		os.Stderr = wp
		code := runscript.RunTest(q.Dir, strings.NewReader(""), &out)
		wp.Close()
		os.Stderr = oldErr
		var errb bytes.Buffer
		errb.ReadFrom(rp)
		os.RemoveAll(q.Dir)
		emit(map[string]interface{}{"code": code, "out": strings.ReplaceAll(out.String(), q.Dir, "<dir>"),
			"err": strings.ReplaceAll(errb.String(), q.Dir, "<dir>")})
	})
}
