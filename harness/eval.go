package main

import (
	"bytes"
	"encoding/json"
	"strings"

	"github.com/Syuparn/pangaea/object"
)

// eval: {"src": "...", "stdin": "...", "coq": true, "repeat": n}
// -> evalResult (+ "coq": term of type list stmt when requested and the source parses,
//    "ast": ast.Program.String()). Each request is evaluated in a fresh enclosed
// scope of one interpreter (as the playground does), `repeat` times; all runs must
// agree, otherwise "nondet" lists the differing observations.
type evalReq struct {
	Src    string `json:"src"`
	Stdin  string `json:"stdin"`
	Coq    bool   `json:"coq"`
	Repeat int    `json:"repeat"`
	Fresh  bool   `json:"fresh"` // build a brand-new interpreter env for this request
	// Prelude is evaluated once per process (per distinct text) in a scope enclosed in the
	// global one; Src then runs in a fresh scope enclosed in the prelude's scope.
	Prelude string `json:"prelude"`
}

type evalReply struct {
	evalResult
	Coq    string   `json:"coq,omitempty"`
	PreCoq string   `json:"precoq,omitempty"`
	Ast    string   `json:"ast,omitempty"`
	Nondet []string `json:"nondet,omitempty"`
}

func init() { register("eval", cmdEval) }

func cmdEval() {
	var out bytes.Buffer
	in := &switchReader{}
	global := newEnv(in, &out)
	preEnvs := map[string]*object.Env{}
	preCoq := map[string]string{}
	readLines(func(line []byte) {
		var q evalReq
		if err := json.Unmarshal(line, &q); err != nil {
			panic(err)
		}
		if q.Repeat < 1 {
			q.Repeat = 1
		}
		var rep evalReply
		for i := 0; i < q.Repeat; i++ {
			out.Reset()
			// a new reader per evaluation, injected as the playground does (the IO object buffers what it reads)
			global.InjectIO(strings.NewReader(q.Stdin), &out)
			env := global
			if q.Fresh {
				env = newEnv(strings.NewReader(q.Stdin), &out)
			}
			if q.Prelude != "" && !q.Fresh {
				pe, ok := preEnvs[q.Prelude]
				if !ok {
					pe = object.NewEnclosedEnv(global)
					pr := evalIn(q.Prelude, pe, &out)
					if pr.Kind != "value" {
						rep.evalResult = evalResult{Kind: "syntax", ErrMsg: "prelude failed: " + pr.ErrMsg + pr.Panic}
						break
					}
					out.Reset()
					preEnvs[q.Prelude] = pe
					if node, err := parseString(q.Prelude); err == nil {
						preCoq[q.Prelude] = coqProgram(node)
					}
				}
				env = pe
			}
			r := evalIn(q.Src, object.NewEnclosedEnv(env), &out)
			if i == 0 {
				rep.evalResult = r
			} else if !sameObs(r, rep.evalResult) {
				b, _ := json.Marshal(r)
				rep.Nondet = append(rep.Nondet, string(b))
			}
		}
		if q.Coq && rep.Kind != "syntax" {
			func() {
				defer func() {
					if r := recover(); r != nil {
						rep.Coq = ""
					}
				}()
				node, err := parseString(q.Src)
				if err == nil {
					rep.Coq = coqProgram(node)
					rep.Ast = node.String()
					rep.PreCoq = preCoq[q.Prelude]
				}
			}()
		}
		emit(rep)
	})
}

func sameObs(a, b evalResult) bool {
	return a.Kind == b.Kind && a.Repr == b.Repr && a.ErrK == b.ErrK && a.ErrMsg == b.ErrMsg && a.Out == b.Out && a.Site == b.Site
}

type switchReader struct{ r *strings.Reader }

func (s *switchReader) Read(p []byte) (int, error) { return s.r.Read(p) }
