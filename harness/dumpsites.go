package main

// dumpsites — translator of C20 (tie "T"): lists every read and every write of the
// package-level tables of package object (symHashTable, strTable) together with the
// lock that is held on every path from the entry of the enclosing function.
//
// request : {"repo":"/repo","pkg":"object","vars":["symHashTable","strTable"],"lock":"lock"}
// reply   : {"sites":[{var,kind,lock,func,file,line,how}], "leaks":[...], "anomalies":[...],
//            "notes":[...], "decls":{name:"file:line type"}, "lock_type":"sync.RWMutex", ...}
//
// Direction of every approximation: the lock reported for a site is never stronger
// than what is really held (unknown = NoLock); a use of a table that is not one of the
// recognised map operations is reported as a leak and as a W/NoLock site.
//
// Held-lock tracking is intraprocedural and flow-sensitive over the statement tree:
//   lock.RLock() / lock.Lock()        set the state (statement position only),
//   lock.RUnlock() / lock.Unlock()    clear it,
//   defer lock.RUnlock()/Unlock()     keep it until the function returns,
//   if / switch / select              join of the branches (different -> NoLock),
//   for / range                       body re-analysed from NoLock when the state at the
//                                     loop head is not stable,
//   func literals, go, defer func     analysed from NoLock,
//   function entry                    NoLock (callers are not trusted to hold a lock).
// Calls are assumed not to release a lock the caller holds; that is checked: every
// function body (and literal) of the package that unlocks more than it locked itself,
// and every use of the lock variable other than the six method calls, is an anomaly.

import (
	"encoding/json"
	"fmt"
	"go/ast"
	"go/parser"
	"go/token"
	"os"
	"path/filepath"
	"sort"
	"strings"
)

func init() { register("dumpsites", cmdDumpsites) }

type dsReq struct {
	Repo string   `json:"repo"`
	Pkg  string   `json:"pkg"`
	Vars []string `json:"vars"`
	Lock string   `json:"lock"`
}

type dsSite struct {
	Var  string `json:"var"`
	Kind string `json:"kind"` // R | W
	Lock string `json:"lock"` // NoLock | RLock | WLock
	Func string `json:"func"`
	File string `json:"file"`
	Line int    `json:"line"`
	How  string `json:"how"`
	// Section: number of lock operations the analysis had seen when it reached the site; two sites of one
	// function with the same number have no Lock/Unlock/RLock/RUnlock between them (one critical section)
	Section int `json:"section"`
}

type dsMark struct {
	What string `json:"what"`
	Func string `json:"func"`
	File string `json:"file"`
	Line int    `json:"line"`
}

type dsReply struct {
	Files      []string          `json:"files"`
	Funcs      int               `json:"funcs"`
	FuncLits   int               `json:"funclits"`
	Decls      map[string]string `json:"decls"`
	LockType   string            `json:"lock_type"`
	LockCalls  int               `json:"lock_calls"`
	Sites      []dsSite          `json:"sites"`
	Leaks      []dsSite          `json:"leaks"`
	Anomalies  []dsMark          `json:"anomalies"`
	Notes      []dsMark          `json:"notes"`
	Linkname   []string          `json:"linkname"`
	Unsafe     []string          `json:"imports_unsafe"`
	ParseError string            `json:"parse_error,omitempty"`
	LockVar    string            `json:"lock_var"`
}

type lockState int

const (
	lsNone lockState = iota
	lsR
	lsW
)

func (l lockState) String() string { return [...]string{"NoLock", "RLock", "WLock"}[l] }

func joinLS(a, b lockState) lockState {
	if a == b {
		return a
	}
	return lsNone
}

type dsCtx struct {
	loop   bool
	breaks []lockState
	conts  []lockState
}

type dsAn struct {
	fset         *token.FileSet
	repo         string
	vars         map[string]bool
	lock         string
	pkgSpecs     map[*ast.ValueSpec]bool // package-level value specs of the package
	out          *dsReply
	fn           string
	nlit         int
	ctx          []*dsCtx
	unanalysable bool
}

func (a *dsAn) pos(n ast.Node) (string, int) {
	p := a.fset.Position(n.Pos())
	rel, err := filepath.Rel(a.repo, p.Filename)
	if err != nil {
		rel = p.Filename
	}
	return rel, p.Line
}

func (a *dsAn) site(n ast.Node, v, kind string, held lockState, how string) {
	f, l := a.pos(n)
	a.out.Sites = append(a.out.Sites, dsSite{v, kind, held.String(), a.fn, f, l, how, a.out.LockCalls})
}

func (a *dsAn) leak(n ast.Node, v, how string) {
	f, l := a.pos(n)
	a.out.Leaks = append(a.out.Leaks, dsSite{v, "W", "NoLock", a.fn, f, l, how, a.out.LockCalls})
	// conservative: whoever gets hold of the map may write it without the lock
	a.out.Sites = append(a.out.Sites, dsSite{v, "W", "NoLock", a.fn, f, l, "escape: " + how, a.out.LockCalls})
}

func (a *dsAn) anomaly(n ast.Node, what string) {
	f, l := a.pos(n)
	a.out.Anomalies = append(a.out.Anomalies, dsMark{what, a.fn, f, l})
}

func (a *dsAn) note(n ast.Node, what string) {
	f, l := a.pos(n)
	a.out.Notes = append(a.out.Notes, dsMark{what, a.fn, f, l})
}

// pkgLevel: does this identifier denote the package-level object of that name?
// go/parser resolves identifiers per file: Obj==nil means "not declared in this file's
// scopes" (another file of the package, or the universe); a local declaration that
// shadows the name resolves to an Obj whose Decl is not a package-level spec.
func (a *dsAn) pkgLevel(id *ast.Ident) bool {
	if id.Obj == nil {
		return true
	}
	if vs, ok := id.Obj.Decl.(*ast.ValueSpec); ok && a.pkgSpecs[vs] {
		return true
	}
	return false
}

func unparen(e ast.Expr) ast.Expr {
	for {
		p, ok := e.(*ast.ParenExpr)
		if !ok {
			return e
		}
		e = p.X
	}
}

func (a *dsAn) tableOf(e ast.Expr) (string, bool) {
	if e == nil {
		return "", false
	}
	id, ok := unparen(e).(*ast.Ident)
	if !ok || !a.vars[id.Name] || !a.pkgLevel(id) {
		return "", false
	}
	return id.Name, true
}

func (a *dsAn) isLockIdent(e ast.Expr) bool {
	id, ok := unparen(e).(*ast.Ident)
	return ok && id.Name == a.lock && a.pkgLevel(id)
}

// lockCall recognises lock.<M>() and returns M.
func (a *dsAn) lockCall(e ast.Expr) (string, bool) {
	c, ok := unparen(e).(*ast.CallExpr)
	if !ok {
		return "", false
	}
	s, ok := c.Fun.(*ast.SelectorExpr)
	if !ok || !a.isLockIdent(s.X) {
		return "", false
	}
	switch s.Sel.Name {
	case "Lock", "Unlock", "RLock", "RUnlock", "TryLock", "TryRLock":
		if len(c.Args) == 0 {
			return s.Sel.Name, true
		}
	}
	return "", false
}

func builtinCall(c *ast.CallExpr, names ...string) (string, bool) {
	id, ok := c.Fun.(*ast.Ident)
	if !ok || id.Obj != nil {
		return "", false
	}
	for _, n := range names {
		if id.Name == n {
			return n, true
		}
	}
	return "", false
}

// expr scans an expression evaluated while `held` is held.
func (a *dsAn) expr(e ast.Expr, held lockState) {
	if e == nil {
		return
	}
	ast.Inspect(e, func(n ast.Node) bool {
		switch x := n.(type) {
		case *ast.IndexExpr:
			if v, ok := a.tableOf(x.X); ok {
				a.site(x, v, "R", held, "index-read")
				a.expr(x.Index, held)
				return false
			}
		case *ast.CallExpr:
			if m, ok := a.lockCall(x); ok {
				a.out.LockCalls++
				a.anomaly(x, "lock."+m+"() in expression position (not tracked)")
				return false
			}
			if b, ok := builtinCall(x, "len", "delete", "clear"); ok && len(x.Args) > 0 {
				if v, ok := a.tableOf(x.Args[0]); ok {
					if b == "len" {
						a.site(x, v, "R", held, "len")
					} else {
						a.site(x, v, "W", held, b)
					}
					for _, arg := range x.Args[1:] {
						a.expr(arg, held)
					}
					return false
				}
			}
			for _, arg := range x.Args {
				if v, ok := a.tableOf(arg); ok {
					a.leak(arg, v, "passed to a function")
				} else {
					a.expr(arg, held)
				}
			}
			a.expr(x.Fun, held)
			return false
		case *ast.SelectorExpr:
			if a.isLockIdent(x.X) {
				a.anomaly(x, "lock."+x.Sel.Name+" used other than as a direct method call")
				return false
			}
			a.expr(x.X, held)
			return false
		case *ast.FuncLit:
			a.funcLit(x)
			return false
		case *ast.UnaryExpr:
			if x.Op == token.AND {
				if v, ok := a.tableOf(x.X); ok {
					a.leak(x, v, "address taken")
					return false
				}
				if a.isLockIdent(x.X) {
					a.anomaly(x, "address of the lock taken")
					return false
				}
			}
		case *ast.KeyValueExpr:
			// struct-literal field names are not variable uses; map-literal keys are
			// expressions. A bare identifier key cannot be told apart without types, so
			// only the value is scanned when the key is a bare identifier.
			if _, ok := x.Key.(*ast.Ident); ok {
				a.expr(x.Value, held)
				return false
			}
		case *ast.Ident:
			if a.vars[x.Name] && a.pkgLevel(x) {
				a.leak(x, x.Name, "map value used outside a map operation (alias/escape)")
			} else if x.Name == a.lock && a.pkgLevel(x) {
				a.anomaly(x, "lock variable used other than as lock.M()")
			}
		}
		return true
	})
}

func (a *dsAn) funcLit(f *ast.FuncLit) {
	a.nlit++
	a.out.FuncLits++
	saveFn, saveCtx, saveUn := a.fn, a.ctx, a.unanalysable
	a.fn = fmt.Sprintf("%s$%d", strings.SplitN(saveFn, "$", 2)[0], a.nlit)
	a.ctx = nil
	a.body(f.Body)
	a.fn, a.ctx, a.unanalysable = saveFn, saveCtx, saveUn
}

// body analyses one function body from NoLock.
func (a *dsAn) body(b *ast.BlockStmt) {
	if b == nil {
		return
	}
	start := len(a.out.Sites)
	a.unanalysable = false
	a.stmts(b.List, lsNone)
	if a.unanalysable {
		for i := start; i < len(a.out.Sites); i++ {
			if a.out.Sites[i].Func == a.fn && a.out.Sites[i].Lock != "NoLock" {
				a.out.Sites[i].Lock = "NoLock"
				a.out.Sites[i].How += " (goto/label/fallthrough in function: lock not tracked)"
			}
		}
	}
}

type dsSnap struct{ s, l, n, an, lc int }

func (a *dsAn) snap() dsSnap {
	return dsSnap{len(a.out.Sites), len(a.out.Leaks), len(a.out.Notes), len(a.out.Anomalies), a.out.LockCalls}
}
func (a *dsAn) restore(s dsSnap) {
	a.out.Sites, a.out.Leaks, a.out.Notes, a.out.Anomalies = a.out.Sites[:s.s], a.out.Leaks[:s.l], a.out.Notes[:s.n], a.out.Anomalies[:s.an]
	a.out.LockCalls = s.lc
}

func (a *dsAn) stmts(list []ast.Stmt, held lockState) (lockState, bool) {
	term := false
	for _, s := range list {
		var t bool
		held, t = a.stmt(s, held)
		term = term || t
	}
	return held, term
}

func (a *dsAn) applyLock(n ast.Node, m string, held lockState) lockState {
	a.out.LockCalls++
	switch m {
	case "RLock":
		if held != lsNone {
			a.note(n, "lock.RLock() while "+held.String()+" is already held: treated as NoLock from here")
			return lsNone
		}
		return lsR
	case "Lock":
		if held != lsNone {
			a.note(n, "lock.Lock() while "+held.String()+" is already held: treated as NoLock from here")
			return lsNone
		}
		return lsW
	case "RUnlock":
		if held != lsR {
			a.anomaly(n, "lock.RUnlock() where this function does not hold the read lock (releases a caller's lock?)")
		}
		return lsNone
	case "Unlock":
		if held != lsW {
			a.anomaly(n, "lock.Unlock() where this function does not hold the write lock (releases a caller's lock?)")
		}
		return lsNone
	}
	// TryLock / TryRLock: result unknown, counted as not acquired
	a.note(n, "lock."+m+"(): counted as not acquired")
	return held
}

func isPanicCall(e ast.Expr) bool {
	c, ok := e.(*ast.CallExpr)
	if !ok {
		return false
	}
	_, ok = builtinCall(c, "panic")
	return ok
}

// loop analyses a for/range body; head() scans what is evaluated at the loop head.
func (a *dsAn) loop(held lockState, hasExit bool, head func(h lockState), body *ast.BlockStmt, post ast.Stmt) (lockState, bool) {
	run := func(entry lockState) (stable bool, exit lockState, term bool) {
		c := &dsCtx{loop: true}
		a.ctx = append(a.ctx, c)
		head(entry)
		hb, tb := a.stmts(body.List, entry)
		if post != nil && !tb {
			hb, _ = a.stmt(post, hb)
		}
		a.ctx = a.ctx[:len(a.ctx)-1]
		stable = true
		if !tb && hb != entry {
			stable = false
		}
		for _, cs := range c.conts {
			if cs != entry {
				stable = false
			}
		}
		exits := []lockState{}
		if hasExit {
			exits = append(exits, entry)
		}
		exits = append(exits, c.breaks...)
		if len(exits) == 0 {
			return stable, entry, true
		}
		exit = exits[0]
		for _, e := range exits[1:] {
			exit = joinLS(exit, e)
		}
		return stable, exit, false
	}
	sn := a.snap()
	stable, exit, term := run(held)
	if !stable {
		a.restore(sn)
		a.note(body, "lock state not stable around the loop: body analysed from NoLock")
		_, exit, term = run(lsNone)
		exit = lsNone
	}
	return exit, term
}

func (a *dsAn) branches(n ast.Node, held lockState, bodies [][]ast.Stmt, hasDefault bool) (lockState, bool) {
	c := &dsCtx{}
	a.ctx = append(a.ctx, c)
	exits := []lockState{}
	for _, b := range bodies {
		h, t := a.stmts(b, held)
		if !t {
			exits = append(exits, h)
		}
	}
	a.ctx = a.ctx[:len(a.ctx)-1]
	if !hasDefault {
		exits = append(exits, held)
	}
	exits = append(exits, c.breaks...)
	if len(exits) == 0 {
		return held, true
	}
	out := exits[0]
	for _, e := range exits[1:] {
		out = joinLS(out, e)
	}
	return out, false
}

func (a *dsAn) stmt(s ast.Stmt, held lockState) (lockState, bool) {
	switch x := s.(type) {
	case nil:
		return held, false
	case *ast.EmptyStmt:
		return held, false
	case *ast.ExprStmt:
		if m, ok := a.lockCall(x.X); ok {
			return a.applyLock(x, m, held), false
		}
		a.expr(x.X, held)
		return held, isPanicCall(x.X)
	case *ast.DeferStmt:
		if m, ok := a.lockCall(x.Call); ok {
			a.out.LockCalls++
			switch {
			case m == "RUnlock" && held == lsR, m == "Unlock" && held == lsW:
				// the idiom: stays held until the function returns
			case m == "RUnlock" || m == "Unlock":
				a.anomaly(x, "defer lock."+m+"() where "+held.String()+" is held: not the lock/defer-unlock idiom")
			default:
				a.anomaly(x, "defer lock."+m+"()")
			}
			return held, false
		}
		for _, arg := range x.Call.Args {
			if v, ok := a.tableOf(arg); ok {
				a.leak(arg, v, "passed to a deferred function")
			} else {
				a.expr(arg, held)
			}
		}
		if fl, ok := x.Call.Fun.(*ast.FuncLit); ok {
			a.funcLit(fl)
		} else {
			a.expr(x.Call.Fun, held)
		}
		return held, false
	case *ast.GoStmt:
		for _, arg := range x.Call.Args {
			if v, ok := a.tableOf(arg); ok {
				a.leak(arg, v, "passed to a goroutine")
			} else {
				a.expr(arg, held)
			}
		}
		if fl, ok := x.Call.Fun.(*ast.FuncLit); ok {
			a.funcLit(fl)
		} else {
			a.expr(x.Call.Fun, lsNone)
		}
		return held, false
	case *ast.AssignStmt:
		for _, r := range x.Rhs {
			a.expr(r, held)
		}
		for _, l := range x.Lhs {
			l = unparen(l)
			if ix, ok := l.(*ast.IndexExpr); ok {
				if v, ok := a.tableOf(ix.X); ok {
					a.site(ix, v, "W", held, "index-assign "+x.Tok.String())
					a.expr(ix.Index, held)
					continue
				}
			}
			if v, ok := a.tableOf(l); ok {
				a.site(l, v, "W", held, "variable reassigned")
				continue
			}
			if a.isLockIdent(l) {
				a.anomaly(l, "lock variable reassigned")
				continue
			}
			if id, ok := l.(*ast.Ident); ok && (x.Tok == token.DEFINE || !a.vars[id.Name]) {
				continue
			}
			a.expr(l, held)
		}
		return held, false
	case *ast.IncDecStmt:
		if ix, ok := unparen(x.X).(*ast.IndexExpr); ok {
			if v, ok := a.tableOf(ix.X); ok {
				a.site(ix, v, "W", held, "index "+x.Tok.String())
				a.expr(ix.Index, held)
				return held, false
			}
		}
		a.expr(x.X, held)
		return held, false
	case *ast.ReturnStmt:
		for _, r := range x.Results {
			if v, ok := a.tableOf(r); ok {
				a.leak(r, v, "returned from a function")
			} else {
				a.expr(r, held)
			}
		}
		return held, true
	case *ast.BlockStmt:
		return a.stmts(x.List, held)
	case *ast.IfStmt:
		held, _ = a.stmt(x.Init, held)
		a.expr(x.Cond, held)
		h1, t1 := a.stmts(x.Body.List, held)
		h2, t2 := held, false
		if x.Else != nil {
			h2, t2 = a.stmt(x.Else, held)
		}
		switch {
		case t1 && t2:
			return held, true
		case t1:
			return h2, false
		case t2:
			return h1, false
		}
		return joinLS(h1, h2), false
	case *ast.ForStmt:
		held, _ = a.stmt(x.Init, held)
		return a.loop(held, x.Cond != nil, func(h lockState) { a.expr(x.Cond, h) }, x.Body, x.Post)
	case *ast.RangeStmt:
		v, isTab := a.tableOf(x.X)
		if !isTab {
			a.expr(x.X, held)
		}
		return a.loop(held, true, func(h lockState) {
			if isTab {
				a.site(x, v, "R", h, "range")
			}
			if x.Tok != token.DEFINE {
				a.expr(x.Key, h)
				a.expr(x.Value, h)
			}
		}, x.Body, nil)
	case *ast.SwitchStmt:
		held, _ = a.stmt(x.Init, held)
		a.expr(x.Tag, held)
		return a.clauses(x, x.Body, held)
	case *ast.TypeSwitchStmt:
		held, _ = a.stmt(x.Init, held)
		held, _ = a.stmt(x.Assign, held)
		return a.clauses(x, x.Body, held)
	case *ast.SelectStmt:
		return a.clauses(x, x.Body, held)
	case *ast.BranchStmt:
		if x.Label != nil || x.Tok == token.GOTO || x.Tok == token.FALLTHROUGH {
			a.unanalysable = true
			a.note(x, x.Tok.String()+" with label / goto / fallthrough: every site of this function is reported with NoLock")
			return held, true
		}
		for i := len(a.ctx) - 1; i >= 0; i-- {
			c := a.ctx[i]
			if x.Tok == token.BREAK {
				c.breaks = append(c.breaks, held)
				break
			}
			if x.Tok == token.CONTINUE && c.loop {
				c.conts = append(c.conts, held)
				break
			}
		}
		return held, true
	case *ast.LabeledStmt:
		a.unanalysable = true
		a.note(x, "labeled statement: every site of this function is reported with NoLock")
		return a.stmt(x.Stmt, held)
	case *ast.DeclStmt:
		if gd, ok := x.Decl.(*ast.GenDecl); ok {
			for _, sp := range gd.Specs {
				if vs, ok := sp.(*ast.ValueSpec); ok {
					for _, v := range vs.Values {
						a.expr(v, held)
					}
				}
			}
		}
		return held, false
	case *ast.SendStmt:
		a.expr(x.Chan, held)
		a.expr(x.Value, held)
		return held, false
	}
	a.note(s, fmt.Sprintf("statement %T not modelled: scanned with NoLock", s))
	ast.Inspect(s, func(n ast.Node) bool {
		if e, ok := n.(ast.Expr); ok {
			a.expr(e, lsNone)
			return false
		}
		return true
	})
	return lsNone, false
}

func (a *dsAn) clauses(n ast.Node, body *ast.BlockStmt, held lockState) (lockState, bool) {
	bodies := [][]ast.Stmt{}
	hasDefault := false
	for _, c := range body.List {
		switch cc := c.(type) {
		case *ast.CaseClause:
			if cc.List == nil {
				hasDefault = true
			}
			for _, e := range cc.List {
				a.expr(e, held)
			}
			bodies = append(bodies, cc.Body)
		case *ast.CommClause:
			if cc.Comm == nil {
				hasDefault = true
			}
			b := cc.Body
			if cc.Comm != nil {
				b = append([]ast.Stmt{cc.Comm}, b...)
			}
			bodies = append(bodies, b)
		}
	}
	if _, ok := n.(*ast.SelectStmt); ok {
		hasDefault = true // a select always runs exactly one clause
	}
	return a.branches(n, held, bodies, hasDefault)
}

func typeString(e ast.Expr) string {
	switch t := e.(type) {
	case nil:
		return ""
	case *ast.Ident:
		return t.Name
	case *ast.SelectorExpr:
		return typeString(t.X) + "." + t.Sel.Name
	case *ast.StarExpr:
		return "*" + typeString(t.X)
	case *ast.MapType:
		return "map[" + typeString(t.Key) + "]" + typeString(t.Value)
	case *ast.CallExpr:
		if id, ok := t.Fun.(*ast.Ident); ok && id.Name == "make" && len(t.Args) > 0 {
			return typeString(t.Args[0])
		}
	case *ast.CompositeLit:
		return typeString(t.Type)
	}
	return fmt.Sprintf("%T", e)
}

func funcName(fd *ast.FuncDecl) string {
	if fd.Recv != nil && len(fd.Recv.List) > 0 {
		return "(" + typeString(fd.Recv.List[0].Type) + ")." + fd.Name.Name
	}
	return fd.Name.Name
}

func dumpsites(q dsReq) dsReply {
	out := dsReply{Decls: map[string]string{}, Sites: []dsSite{}, Leaks: []dsSite{}, Anomalies: []dsMark{},
		Notes: []dsMark{}, Linkname: []string{}, Unsafe: []string{}, Files: []string{}}
	if q.Pkg == "" {
		q.Pkg = "object"
	}
	if q.Lock == "" {
		q.Lock = "lock"
	}
	if len(q.Vars) == 0 {
		q.Vars = []string{"symHashTable", "strTable"}
	}
	a := &dsAn{fset: token.NewFileSet(), repo: q.Repo, vars: map[string]bool{}, lock: q.Lock,
		pkgSpecs: map[*ast.ValueSpec]bool{}, out: &out}
	for _, v := range q.Vars {
		a.vars[v] = true
	}
	dir := filepath.Join(q.Repo, q.Pkg)
	names, err := filepath.Glob(filepath.Join(dir, "*.go"))
	if err != nil || len(names) == 0 {
		out.ParseError = "no Go files in " + dir
		return out
	}
	sort.Strings(names)
	files := []*ast.File{}
	for _, n := range names {
		if strings.HasSuffix(n, "_test.go") {
			continue
		}
		f, err := parser.ParseFile(a.fset, n, nil, parser.ParseComments)
		if err != nil {
			out.ParseError = err.Error()
			return out
		}
		if f.Name.Name != q.Pkg {
			continue
		}
		files = append(files, f)
		rel, _ := filepath.Rel(q.Repo, n)
		out.Files = append(out.Files, rel)
		for _, im := range f.Imports {
			if im.Path.Value == `"unsafe"` {
				out.Unsafe = append(out.Unsafe, rel)
			}
		}
	}
	// the mutex: the requested name if the package declares it; otherwise, when the package declares exactly one
	// package-level sync.RWMutex / sync.Mutex, that one (the variable was renamed). Several mutexes are NOT merged:
	// accesses under another mutex than the chosen one count as unlocked.
	mutexes := []string{}
	for _, f := range files {
		for _, d := range f.Decls {
			gd, ok := d.(*ast.GenDecl)
			if !ok || gd.Tok != token.VAR {
				continue
			}
			for _, sp := range gd.Specs {
				vs := sp.(*ast.ValueSpec)
				ty := typeString(vs.Type)
				if ty == "sync.RWMutex" || ty == "sync.Mutex" {
					for _, id := range vs.Names {
						mutexes = append(mutexes, id.Name)
					}
				}
			}
		}
	}
	declared := false
	for _, m := range mutexes {
		if m == q.Lock {
			declared = true
		}
	}
	if !declared && len(mutexes) == 1 {
		out.Notes = append(out.Notes, dsMark{What: "mutex `" + q.Lock + "` is not declared; the only package-level mutex `" + mutexes[0] + "` is used", Func: "", File: "", Line: 0})
		q.Lock = mutexes[0]
		a.lock = mutexes[0]
	}
	out.LockVar = q.Lock
	// package-level declarations
	for _, f := range files {
		for _, d := range f.Decls {
			gd, ok := d.(*ast.GenDecl)
			if !ok || (gd.Tok != token.VAR && gd.Tok != token.CONST) {
				continue
			}
			for _, sp := range gd.Specs {
				vs := sp.(*ast.ValueSpec)
				a.pkgSpecs[vs] = true
				for i, id := range vs.Names {
					if !a.vars[id.Name] && id.Name != q.Lock {
						continue
					}
					ty := typeString(vs.Type)
					if ty == "" && i < len(vs.Values) {
						ty = typeString(vs.Values[i])
					}
					file, line := a.pos(id)
					where := fmt.Sprintf("%s:%d %s", file, line, ty)
					if old, dup := out.Decls[id.Name]; dup {
						where = old + " ; " + where
					}
					out.Decls[id.Name] = where
					if id.Name == q.Lock {
						out.LockType = ty
					}
				}
			}
		}
	}
	// function bodies and package-level initialisers
	for _, f := range files {
		for _, d := range f.Decls {
			switch x := d.(type) {
			case *ast.FuncDecl:
				out.Funcs++
				a.fn, a.nlit, a.ctx = funcName(x), 0, nil
				a.body(x.Body)
			case *ast.GenDecl:
				if x.Tok != token.VAR {
					continue
				}
				for _, sp := range x.Specs {
					vs := sp.(*ast.ValueSpec)
					a.fn, a.nlit, a.ctx = "<package-level initialiser of "+vs.Names[0].Name+">", 0, nil
					for _, v := range vs.Values {
						a.expr(v, lsNone)
					}
				}
			}
		}
	}
	// nobody outside the package reaches the unexported variables except through linkname
	filepath.Walk(q.Repo, func(p string, info os.FileInfo, err error) error {
		if err != nil {
			return nil
		}
		if info.IsDir() {
			if info.Name() == ".git" {
				return filepath.SkipDir
			}
			return nil
		}
		if !strings.HasSuffix(p, ".go") {
			return nil
		}
		b, err := os.ReadFile(p)
		if err != nil {
			return nil
		}
		for i, line := range strings.Split(string(b), "\n") {
			if strings.HasPrefix(strings.TrimSpace(line), "//go:linkname") {
				rel, _ := filepath.Rel(q.Repo, p)
				out.Linkname = append(out.Linkname, fmt.Sprintf("%s:%d %s", rel, i+1, strings.TrimSpace(line)))
			}
		}
		return nil
	})
	return out
}

func cmdDumpsites() {
	readLines(func(line []byte) {
		var q dsReq
		if err := json.Unmarshal(line, &q); err != nil {
			panic(err)
		}
		emit(dumpsites(q))
	})
}
