package main

// crash — C01 sweep: evaluates programs and calls built-in functions directly, one case per
// request line, under recover(), an evaluation fuel (hook: build tag verif), a wall-clock
// watchdog and a heap watchdog. For every case the line ">id" is flushed BEFORE the
// case runs, so that when the process dies (fatal error, stack overflow, watchdog) the driver
// knows which case did it, records it, and restarts the process on the rest.
//
// requests
//   {"id":1,"mode":"list"}                                  -> own properties of every global object
//   {"id":2,"mode":"src","src":"1 + nil","stdin":""}        -> parse + evaluate in a child scope
//   {"id":4,"mode":"repl","src":"1 + 2\nmulti\n..."}       -> runscript.StartREPL on these input lines
//   {"id":5,"mode":"script","src":"...","stdin":""}         -> runscript.RunSource (parse, evaluate, error report, exit code)
//   {"id":3,"mode":"direct","recv":"Int","prop":"+","args":["1","nil"],"kw":"{base: 2}"}
//        -> look the property up along recv's prototypes; if it is a Go built-in, call
//           Fn(env, kwargs, args...) with exactly these arguments (0 arguments included)
// replies  ">id" before a case starts; "=id kind" for the common outcomes (CRASH_VERBOSE=1: always JSON);
//          {"id":..,"kind":"value|error|syntax|fuel|panic|notbuiltin|badcase|timeout|memory",...}

import (
	"bytes"
	"encoding/json"
	"fmt"
	"os"
	"runtime/debug"
	"runtime/metrics"
	"sort"
	"strings"
	"sync/atomic"
	"time"

	"github.com/Syuparn/pangaea/evaluator"
	"github.com/Syuparn/pangaea/object"
	"github.com/Syuparn/pangaea/runscript"
)

func init() { register("crash", cmdCrash) }

type crashReq struct {
	ID    int      `json:"id"`
	Mode  string   `json:"mode"`
	Src   string   `json:"src"`
	Stdin string   `json:"stdin"`
	Recv  string   `json:"recv"`
	Prop  string   `json:"prop"`
	Args  []string `json:"args"`
	Kw    string   `json:"kw"`
}

type crashRes struct {
	ID    int    `json:"id"`
	Kind  string `json:"kind"`
	Repr  string `json:"repr,omitempty"`
	ErrK  string `json:"errk,omitempty"`
	Msg   string `json:"msg,omitempty"`
	Panic string `json:"panic,omitempty"`
	Site  string `json:"site,omitempty"`
	Stack string `json:"stack,omitempty"`
}

var crashCur atomic.Int64   // id of the running case (-1: none)
var crashSince atomic.Int64 // unix nanos when it started

func crashWatchdog(limit time.Duration, heapLimit uint64) {
	sample := []metrics.Sample{{Name: "/memory/classes/heap/objects:bytes"}}
	for {
		time.Sleep(10 * time.Millisecond)
		id := crashCur.Load()
		if id < 0 {
			continue
		}
		metrics.Read(sample)
		heap := sample[0].Value.Uint64()
		kind := ""
		if time.Duration(time.Now().UnixNano()-crashSince.Load()) > limit {
			kind = "timeout"
		} else if heap > heapLimit {
			kind = "memory"
		}
		if kind != "" {
			b, _ := json.Marshal(crashRes{ID: int(id), Kind: kind})
			os.Stdout.Write(append(b, '\n'))
			os.Exit(3)
		}
	}
}

func truncate(s string, n int) string {
	if len(s) > n {
		return s[:n] + "…"
	}
	return s
}

func cmdCrash() {
	limit := 3 * time.Second
	if v := os.Getenv("CRASH_LIMIT_MS"); v != "" {
		var ms int
		fmt.Sscan(v, &ms)
		limit = time.Duration(ms) * time.Millisecond
	}
	verbose := os.Getenv("CRASH_VERBOSE") != ""
	crashCur.Store(-1)
	go crashWatchdog(limit, 1<<30)
	debug.SetMaxStack(256 << 20)
	out := &bytes.Buffer{}
	global := newEnv(strings.NewReader(""), out)
	cache := map[string]object.PanObject{}
	evalArg := func(src string, env *object.Env) (object.PanObject, bool) {
		// values are immutable except iterators: those are built afresh for every case
		cacheable := !strings.Contains(src, "_iter") && !strings.Contains(src, "<{")
		if v, ok := cache[src]; ok && cacheable {
			return v, true
		}
		v, ok := evalArg0(src, env)
		if ok && cacheable {
			cache[src] = v
		}
		return v, ok
	}
	readLines(func(line []byte) {
		var req crashReq
		if err := json.Unmarshal(line, &req); err != nil {
			emit(crashRes{Kind: "badcase", Msg: err.Error()})
			return
		}
		if req.Mode == "list" {
			emit(map[string]interface{}{"id": req.ID, "kind": "list", "objects": crashList(global)})
			stdout.Flush()
			return
		}
		fmt.Fprintf(stdout, ">%d\n", req.ID)
		stdout.Flush()
		out.Reset()
		crashSince.Store(time.Now().UnixNano())
		crashCur.Store(int64(req.ID))
		res := crashOne(req, global, out, evalArg)
		crashCur.Store(-1)
		res.ID = req.ID
		// the common outcomes are reported in short form  =<id> <kind>  (no flush: the next start line flushes)
		switch res.Kind {
		case "value", "error", "syntax", "fuel", "notbuiltin", "badcase":
			if !verbose {
				fmt.Fprintf(stdout, "=%d %s\n", req.ID, res.Kind)
				return
			}
		}
		emit(res)
		stdout.Flush()
	})
}

func evalArg0(src string, env *object.Env) (object.PanObject, bool) {
	node, err := parseString(src)
	if err != nil {
		return nil, false
	}
	evaluator.VerifFuel = evalFuel
	v := evaluator.Eval(node, env)
	evaluator.VerifFuel = -1
	if v == nil {
		return nil, false
	}
	return v, true
}

func crashOne(req crashReq, global *object.Env, out *bytes.Buffer,
	evalArg func(string, *object.Env) (object.PanObject, bool)) (res crashRes) {
	defer func() {
		if r := recover(); r != nil {
			evaluator.VerifFuel = -1
			st := string(debug.Stack())
			res = crashRes{Kind: "panic", Panic: truncate(fmt.Sprint(r), 300), Site: panicSite(st), Stack: truncate(st, 4000)}
		}
	}()
	env := object.NewEnclosedEnv(global)
	if req.Stdin != "" {
		env = newEnv(strings.NewReader(req.Stdin), out)
	}
	switch req.Mode {
	case "src":
		r := evalIn(req.Src, env, out)
		return crashRes{Kind: r.Kind, Repr: truncate(r.Repr, 200), ErrK: r.ErrK, Msg: truncate(r.ErrMsg, 200), Panic: r.Panic, Site: r.Site, Stack: r.Stack}
	case "repl":
		// the interactive front end: req.Src is what the user types (lines), answers go to a buffer
		var rout bytes.Buffer
		evaluator.VerifFuel = evalFuel * 20
		runscript.StartREPL("", strings.NewReader(req.Src), &rout)
		evaluator.VerifFuel = -1
		return crashRes{Kind: "value", Repr: truncate(rout.String(), 200)}
	case "script":
		// the script front end: parse + evaluate + error report + exit code
		var rout bytes.Buffer
		evaluator.VerifFuel = evalFuel * 20
		code := runscript.RunSource(req.Src, "demo.pangaea", strings.NewReader(req.Stdin), &rout)
		evaluator.VerifFuel = -1
		return crashRes{Kind: "value", Repr: fmt.Sprintf("exit %d: %s", code, truncate(rout.String(), 160))}
	case "direct":
		recv, ok := evalArg(req.Recv, env)
		if !ok {
			return crashRes{Kind: "badcase", Msg: "receiver does not evaluate"}
		}
		prop, ok := object.FindPropAlongProtos(recv, object.GetSymHash(req.Prop))
		if !ok {
			return crashRes{Kind: "badcase", Msg: "no such property"}
		}
		bi, ok := prop.(*object.PanBuiltIn)
		if !ok {
			return crashRes{Kind: "notbuiltin"}
		}
		args := []object.PanObject{}
		for _, a := range req.Args {
			v, ok := evalArg(a, env)
			if !ok {
				return crashRes{Kind: "badcase", Msg: "argument does not evaluate: " + a}
			}
			args = append(args, v)
		}
		kwargs := object.EmptyPanObjPtr()
		if req.Kw != "" {
			v, ok := evalArg(req.Kw, env)
			if o, isObj := v.(*object.PanObj); ok && isObj {
				kwargs = o
			}
		}
		evaluator.VerifFuel = evalFuel
		v := bi.Fn(env, kwargs, args...)
		evaluator.VerifFuel = -1
		r := describe(v, out)
		if r.Kind == "error" && r.ErrMsg == evaluator.VerifOutOfFuelMsg {
			r.Kind = "fuel"
		}
		return crashRes{Kind: r.Kind, Repr: truncate(r.Repr, 200), ErrK: r.ErrK, Msg: truncate(r.ErrMsg, 200)}
	}
	return crashRes{Kind: "badcase", Msg: "unknown mode"}
}

// crashList: every name of the global scope that is bound to an object, with its own properties.
func crashList(global *object.Env) []map[string]interface{} {
	var res []map[string]interface{}
	items, ok := global.Items().(*object.PanObj)
	if !ok {
		return res
	}
	for _, pair := range *items.Pairs {
		name := pair.Key.(*object.PanStr).Value
		entry := map[string]interface{}{"name": name, "type": string(pair.Value.Type())}
		if o, ok := pair.Value.(*object.PanObj); ok {
			props := [][2]string{}
			for _, p := range *o.Pairs {
				props = append(props, [2]string{p.Key.(*object.PanStr).Value, string(p.Value.Type())})
			}
			sort.Slice(props, func(i, j int) bool { return props[i][0] < props[j][0] })
			entry["props"] = props
		}
		res = append(res, entry)
	}
	sort.Slice(res, func(i, j int) bool { return res[i]["name"].(string) < res[j]["name"].(string) })
	return res
}
